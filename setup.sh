#!/bin/sh
# Offline setup: everything is pure Python run from source; just make sure the
# interpreter, the repository and the schema validator are where the checks expect them.
set -e
cd "$(dirname "$0")"
chmod +x check
/venv/bin/python -c "import trio, yaml, entrypoints, toposort; import sys; sys.path.insert(0, '/repo/src'); import cobald.interfaces"
mkdir -p evidence replays
echo "setup ok"
