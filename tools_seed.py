#!/venv/bin/python
"""
Confirm a seeded property-breaking change and run checks against it.

    tools_seed.py <name> <property> <patch.diff> <demo.py> [--checks C01,C02] [--tier quick]
                  [--needs "what it needs to manifest"] [--no-store]

* applies the patch in a scratch worktree of /repo (outside /repo and /verif),
* runs the repository's own test suite on it (must still pass),
* runs the demonstration with the change (must fail) and without it (must pass),
* runs the given checks (default: the property's own) with VERIF_REPO pointing at the
  worktree and records which of them report a VIOLATION,
* stores patch, demonstration and meta.json under /verif/seeded/<name>/,
* removes the worktree.
"""
import argparse
import json
import os
import re
import shutil
import subprocess
import sys
import time

VERIF = os.path.dirname(os.path.abspath(__file__))
REPO = "/repo"


def _default_sigint():
    # a background job of a non-interactive shell ignores SIGINT; the tests and checks need it
    import signal

    signal.signal(signal.SIGINT, signal.SIG_DFL)


def sh(cmd, env=None, cwd=None, timeout=3600):
    full = dict(os.environ)
    full.update(env or {})
    start = time.time()
    proc = subprocess.run(cmd, shell=True, cwd=cwd, env=full, capture_output=True, text=True,
                          timeout=timeout, preexec_fn=_default_sigint)
    return proc.returncode, proc.stdout + proc.stderr, time.time() - start


def main():
    cli = argparse.ArgumentParser()
    cli.add_argument("name")
    cli.add_argument("property")
    cli.add_argument("patch")
    cli.add_argument("demo")
    cli.add_argument("--checks")
    cli.add_argument("--tier", default="quick")
    cli.add_argument("--needs", default="")
    cli.add_argument("--no-store", action="store_true")
    cli.add_argument("--base", default="HEAD", help="commit of /repo the patch is applied to")
    cli.add_argument("--seed-tree", help="the author's own worktree; demonstrations that "
                     "hard-code their import path are run there (patch applied / removed)")
    options = cli.parse_args()
    checks = (options.checks or options.property).split(",")
    tree = "/root/scratch/seedrun-%s" % options.name
    sh("git -C %s worktree remove --force %s" % (REPO, tree))
    code, out, _ = sh("git -C %s worktree add --detach %s %s" % (REPO, tree, options.base))
    if code:
        sys.exit("cannot create worktree: %s" % out)
    meta = {"name": options.name, "property": options.property,
            "needs_to_manifest": options.needs, "ran": [],
            "applied_to": subprocess.check_output(
                ["git", "-C", REPO, "rev-parse", "--short", options.base], text=True).strip()}
    try:
        code, out, _ = sh("git -C %s apply %s" % (tree, os.path.abspath(options.patch)))
        if code:
            sys.exit("patch does not apply: %s" % out)
        env = {"PYTHONPATH": tree + "/src", "COBALD_SRC": tree + "/src"}
        code, out, wall = sh("/venv/bin/python -m pytest -q -p no:cacheprovider --timeout=900 2>&1 | tail -3",
                             env=env, cwd=tree)
        summary = out.strip().splitlines()[-1] if out.strip() else ""
        meta["repo_tests_with_change"] = summary
        meta["ran"].append("cd <worktree> && PYTHONPATH=<worktree>/src /venv/bin/python -m "
                           "pytest -q -p no:cacheprovider  ->  %s" % summary)
        tests_pass = " passed" in summary and "failed" not in summary and "error" not in summary
        demo = os.path.abspath(options.demo)
        if options.seed_tree:
            seed = options.seed_tree
            seed_env = {"PYTHONPATH": seed + "/src", "COBALD_SRC": seed + "/src"}
            sh("git -C %s checkout -- ." % seed)
            sh("git -C %s apply %s" % (seed, os.path.abspath(options.patch)))
            code_with, out_with, _ = sh("/venv/bin/python %s" % demo, env=seed_env, cwd=seed,
                                        timeout=600)
            sh("git -C %s checkout -- ." % seed)
            code_without, out_without, _ = sh("/venv/bin/python %s" % demo, env=seed_env,
                                              cwd=seed, timeout=600)
        else:
            code_with, out_with, _ = sh("/venv/bin/python %s" % demo, env=env, cwd=tree,
                                        timeout=600)
            code_without, out_without, _ = sh(
                "/venv/bin/python %s" % demo,
                env={"PYTHONPATH": REPO + "/src", "COBALD_SRC": REPO + "/src"}, cwd=REPO,
                timeout=600)
        meta["demo_with_change_exit"] = code_with
        meta["demo_without_change_exit"] = code_without
        meta["ran"].append("demo with the change: exit %d; without: exit %d"
                           % (code_with, code_without))
        meta["confirmed"] = bool(tests_pass and code_with != 0 and code_without == 0)
        print("tests: %s | demo with=%d without=%d | confirmed=%s"
              % (summary, code_with, code_without, meta["confirmed"]))
        meta["checks"] = {}
        for check in checks:
            code, out, wall = sh("./check %s --tier %s" % (check, options.tier),
                                 env={"VERIF_REPO": tree}, cwd=VERIF, timeout=7200)
            keys = re.findall(r"^  key=([^\n]*)", out, re.M)
            meta["checks"][check] = {
                "exit": code, "wall_s": round(wall, 1),
                "violations": [k[:300] for k in keys][:8],
                "caught": code == 1 and "VIOLATION property=%s" % check in out,
            }
            meta["ran"].append("VERIF_REPO=<worktree> ./check %s --tier %s  ->  exit %d"
                               % (check, options.tier, code))
            print("check %s: exit=%d caught=%s %.0fs %s" % (
                check, code, meta["checks"][check]["caught"], wall,
                [k[:120] for k in keys][:3]))
            if code == 2:
                print(out[-1500:])
    finally:
        sh("git -C %s worktree remove --force %s" % (REPO, tree))
    if not options.no_store:
        target = os.path.join(VERIF, "seeded", options.name)
        os.makedirs(target, exist_ok=True)
        shutil.copy(options.patch, os.path.join(target, "patch.diff"))
        shutil.copy(options.demo, os.path.join(target, os.path.basename(options.demo)))
        old = {}
        path = os.path.join(target, "meta.json")
        if os.path.exists(path):
            with open(path) as stream:
                old = json.load(stream)
        for check, result in old.get("checks", {}).items():
            meta["checks"].setdefault(check, result)
        with open(path, "w") as stream:
            json.dump(meta, stream, indent=1)
            stream.write("\n")


if __name__ == "__main__":
    main()
