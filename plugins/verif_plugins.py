"""
Recording plugin classes for the configuration checks (C05, C18; usable by C13).

They are made discoverable for the *real* plugin discovery of cobald through
``verif_plugins-0.dist-info/entry_points.txt`` next to this file (the ``check`` script puts
``/verif/plugins`` on ``sys.path`` / ``PYTHONPATH``): every class below is registered in the
entry point group ``cobald.config.yaml_constructors`` under its own name, e.g. ``!VDeco1L``.

* ``VCtrl*`` / ``VDeco*`` / ``VPool*`` are Controller / PoolDecorator / Pool subclasses
  accepting any arguments.  Every successful construction appends one :class:`Record` to
  the module level :data:`LOG`; the object itself is in the record, so identities
  (``record.target is other.obj``) and the *final* state of lazily filled argument
  containers are available after the document has been loaded completely.
* ``*L`` classes are evaluated lazily (the PyYAML default), ``*E`` classes eagerly.
  ``yaml_tag(eager=True)`` is applied to the class *and* to its ``s`` factory: cobald looks
  the setting up on whatever it registers as constructor (``cls.s`` for pipeline classes).
* ``*Fail`` classes record the attempt in :data:`ATTEMPTS` and raise
  :class:`VerifConstructionError`.
* ``VItemL`` / ``VItemE`` are plain (non pipeline) value objects for nested tags.
* :func:`canary` is a callable that must never be called by a configuration loader;
  together with ``verif_canary_module`` it is used by C18.

:func:`reset` clears all logs; checks call it before every case.
"""
import os
import tempfile

from cobald.interfaces import Controller, Pool, PoolDecorator
from cobald.daemon.plugins import yaml_tag


class VerifConstructionError(Exception):
    """Raised by the ``*Fail`` classes from their constructor"""


#: what the ``*Fail`` classes raise (the check switches it per case)
FAIL_WITH = VerifConstructionError


class Record(object):
    """One construction: the object, its class name, target and arguments"""

    __slots__ = ("obj", "cls", "target", "args", "kwargs")

    def __init__(self, obj, target, args, kwargs):
        self.obj = obj
        self.cls = type(obj).__name__
        self.target = target
        self.args = args
        self.kwargs = kwargs

    def __repr__(self):
        return "<%s target=%s args=%r kwargs=%r>" % (
            self.cls, type(self.target).__name__, self.args, self.kwargs)


#: successful constructions of pipeline classes, in the order they happened
LOG = []
#: constructor calls of the ``*Fail`` classes (they raise afterwards)
ATTEMPTS = []
#: constructions of the nested value objects ``VItemL`` / ``VItemE``
ITEMS = []
#: calls of :func:`canary`
CANARY_CALLS = []

NO_TARGET = None


def marker_path():
    """File that the canaries create when they fire (one per process)"""
    return os.path.join(tempfile.gettempdir(), "verif_canary.%d.marker" % os.getpid())


def reset():
    del LOG[:], ATTEMPTS[:], ITEMS[:], CANARY_CALLS[:]


def canary(*args, **kwargs):
    """Must never run during configuration loading"""
    CANARY_CALLS.append((args, kwargs))
    with open(marker_path(), "a") as stream:
        stream.write("canary callable called\n")
    return "canary"


# ---------------------------------------------------------------------------------------
# pipeline classes


class _RecordingOwner(object):
    """Mixin of controllers and decorators: ``(target, *args, **kwargs)``"""

    def __init__(self, target, *args, **kwargs):
        super().__init__(target)
        self.args = args
        self.kwargs = kwargs
        LOG.append(Record(self, target, args, kwargs))


class _FailingOwner(object):
    def __init__(self, target, *args, **kwargs):
        ATTEMPTS.append((type(self).__name__, target, args, kwargs))
        raise FAIL_WITH("%s refuses to be constructed" % type(self).__name__)


class _PoolBase(Pool):
    supply = 0.0
    demand = 0.0
    utilisation = 1.0
    allocation = 1.0


class _RecordingPool(_PoolBase):
    def __init__(self, *args, **kwargs):
        self.args = args
        self.kwargs = kwargs
        LOG.append(Record(self, NO_TARGET, args, kwargs))


def _eager(cls):
    """Mark a pipeline class as eagerly evaluated, on the class and on its factory"""

    @yaml_tag(eager=True)
    def s(klass, *args, **kwargs):
        return super(cls, klass).s(*args, **kwargs)

    cls.s = classmethod(s)
    return yaml_tag(eager=True)(cls)


class VCtrlL(_RecordingOwner, Controller):
    pass


@_eager
class VCtrlE(_RecordingOwner, Controller):
    pass


class VDeco1L(_RecordingOwner, PoolDecorator):
    pass


@_eager
class VDeco1E(_RecordingOwner, PoolDecorator):
    pass


class VDeco2L(_RecordingOwner, PoolDecorator):
    pass


@_eager
class VDeco2E(_RecordingOwner, PoolDecorator):
    pass


class VDeco3L(_RecordingOwner, PoolDecorator):
    pass


@_eager
class VDeco3E(_RecordingOwner, PoolDecorator):
    pass


class VDecoZL(_RecordingOwner, PoolDecorator):
    """A container-like decorator (say, a window of samples) that is empty, hence falsy"""

    def __len__(self):
        return 0


@_eager
class VDecoZE(_RecordingOwner, PoolDecorator):
    def __len__(self):
        return 0


class VPoolL(_RecordingPool):
    pass


class VPoolZL(_RecordingPool):
    """A pool that is falsy (a composite without children)"""

    def __bool__(self):
        return False


@_eager
class VPoolE(_RecordingPool):
    pass


class VCtrlFail(_FailingOwner, Controller):
    pass


class VDecoFail(_FailingOwner, PoolDecorator):
    pass


class VPoolFail(_PoolBase):
    def __init__(self, *args, **kwargs):
        ATTEMPTS.append((type(self).__name__, NO_TARGET, args, kwargs))
        raise FAIL_WITH("%s refuses to be constructed" % type(self).__name__)


# ---------------------------------------------------------------------------------------
# nested values


class _Item(object):
    """Plain value constructed by a nested tag; compares by class and arguments"""

    def __init__(self, *args, **kwargs):
        self.args = args
        self.kwargs = kwargs
        ITEMS.append(self)

    def __repr__(self):
        return "%s(*%r, **%r)" % (type(self).__name__, self.args, self.kwargs)


class VItemL(_Item):
    pass


@yaml_tag(eager=True)
class VItemE(_Item):
    """Eagerly evaluated: its arguments must be complete when the constructor runs, so it
    keeps a snapshot of what it saw at that moment"""

    def __init__(self, *args, **kwargs):
        import copy

        super().__init__(*copy.deepcopy(args), **copy.deepcopy(kwargs))


PIPELINE_CLASSES = (
    VCtrlL, VCtrlE, VDeco1L, VDeco1E, VDeco2L, VDeco2E, VDeco3L, VDeco3E, VPoolL, VPoolE,
    VCtrlFail, VDecoFail, VPoolFail, VDecoZL, VDecoZE, VPoolZL,
)
ITEM_CLASSES = (VItemL, VItemE)
