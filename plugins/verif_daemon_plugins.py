"""
Recording pipeline elements for the C13 check (loaded by the daemon through the real
``cobald.config.yaml_constructors`` entry point group, or imported by Python configs).

Every element reports to ``SINK(event, **data)``.  In-process (cosched) the scenario sets
SINK to the execution's event log; in a real child process the events go to the file
named by ``VERIF_EVENT_FILE`` (one JSON object per line).
"""
import asyncio
import json
import os
import threading
import time

import trio

from cobald.daemon import service
from cobald.interfaces import Controller, Pool, PoolDecorator

SINK = None
_file_lock = threading.Lock()


def emit(event, **data):
    if SINK is not None:
        return SINK(event, **data)
    path = os.environ.get("VERIF_EVENT_FILE")
    if path:
        with _file_lock, open(path, "a") as stream:
            stream.write(json.dumps(dict(data, event=event, t=time.time())) + "\n")
            stream.flush()


def _context():
    try:
        loop = id(asyncio.get_running_loop())
    except RuntimeError:
        loop = None
    return {"loop": loop, "thread": threading.current_thread() is threading.main_thread()}


class _Recorder:
    def _constructed(self, label):
        self.label = label
        emit("constructed", id=label, kind=type(self).__name__, **_context())


class DPool(Pool, _Recorder):
    supply, demand, utilisation, allocation = 1.0, 1.0, 1.0, 1.0

    def __init__(self, label="pool"):
        self._constructed(label)


class DDeco(PoolDecorator, _Recorder):
    def __init__(self, target, label="deco"):
        super().__init__(target)
        self._constructed(label)


class DBroken(Controller, _Recorder):
    def __init__(self, target, label="broken"):
        super().__init__(target)
        raise TypeError("broken constructor of %s" % label)


class _Service(Controller, _Recorder):
    def __init__(self, target, label="svc", interval=0.5, fail_after=None, fail_how="raise",
                 falsy=False):
        super().__init__(target)
        self.interval = interval
        self.fail_after = fail_after
        self.fail_how = fail_how
        self.falsy = falsy
        self._constructed(label)

    def __len__(self):
        # a container-like element (say, of the jobs it has submitted): empty, hence falsy,
        # when configured so
        return 0 if getattr(self, "falsy", False) else 1

    def _beat(self, count):
        emit("beat", id=self.label, count=count)
        if self.fail_after is not None and count >= self.fail_after:
            emit("failing", id=self.label)
            if self.fail_how == "raise":
                raise LookupError("service %s fails" % self.label)
            if self.fail_how == "exit":
                raise SystemExit(3)
            return True
        return False


@service(flavour=trio)
class DSvcTrio(_Service):
    async def run(self):
        if not hasattr(self, "label"):
            emit("run-before-init", kind=type(self).__name__)
        emit("run", id=self.label, **_context())
        try:
            count = 0
            while True:
                await trio.sleep(self.interval)
                count += 1
                if self._beat(count):
                    return count
        except trio.Cancelled:
            emit("cancelled", id=self.label)
            raise


@service(flavour=asyncio)
class DSvcAsyncio(_Service):
    async def run(self):
        if not hasattr(self, "label"):
            emit("run-before-init", kind=type(self).__name__)
        emit("run", id=self.label, **_context())
        try:
            count = 0
            while True:
                await asyncio.sleep(self.interval)
                count += 1
                if self._beat(count):
                    return count
        except asyncio.CancelledError:
            emit("cancelled", id=self.label)
            raise


@service(flavour=threading)
class DSvcThread(_Service):
    def run(self):
        if not hasattr(self, "label"):
            emit("run-before-init", kind=type(self).__name__)
        emit("run", id=self.label, **_context())
        count = 0
        while True:
            time.sleep(self.interval)
            count += 1
            if self._beat(count):
                return count


@service(flavour=trio)
class DDecoSvc(PoolDecorator, _Recorder):
    """A decorator that is a service as well (like cobald's Buffer)"""

    def __init__(self, target, label="decosvc", interval=0.5):
        super().__init__(target)
        self.interval = interval
        self._constructed(label)

    async def run(self):
        if not hasattr(self, "label"):
            emit("run-before-init", kind=type(self).__name__)
        emit("run", id=self.label, **_context())
        try:
            count = 0
            while True:
                await trio.sleep(self.interval)
                count += 1
                emit("beat", id=self.label, count=count)
        except trio.Cancelled:
            emit("cancelled", id=self.label)
            raise
