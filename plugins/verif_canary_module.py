"""
Canary of check C18: this module must never be imported by a configuration loader.

Nothing in /verif or /repo imports it.  Importing it leaves three traces: the entry in
``sys.modules``, a line in the marker file, and (when called) :func:`fire`.
"""
import os
import tempfile

MARKER = os.path.join(tempfile.gettempdir(), "verif_canary.%d.marker" % os.getpid())

with open(MARKER, "a") as _stream:
    _stream.write("canary module imported\n")

FIRED = []


def fire(*args, **kwargs):
    FIRED.append((args, kwargs))
    with open(MARKER, "a") as stream:
        stream.write("canary module function called\n")
    return "fired"
