"""
C16 - decorators are transparent except for what they are meant to change.

Engine: smallscope, operation-sequence exploration.  Every stack of depth 0..3 over
{PoolDecorator, Logger, Standardiser(default arguments), Buffer} on a settable pool is
driven through every operation history up to the depth bound (read each property at the
top, write the demand at the top, set each attribute of the pool at the bottom).  After
every transition the values seen through the stack are compared with the pool's and the
log records captured by a handler (which also snapshots the pool when a record is emitted)
with the records the property promises.  A second part runs every Logger configuration
(name given/None x level x message template over every subset of <= 2 field names) on a
single Logger.

A state is the history; ``build`` makes fresh objects and replays the history without
observing anything; the transition under test is applied to that fresh copy, which is then
inspected and thrown away.  What a Logger's target reported before a write is read from a
second fresh copy, so that the harness never reads through the stack under test.
"""
import itertools
import logging
import warnings

from vlib.smallest import SmallestAcc as Acc

KINDS = "PLSB"  # PoolDecorator, Logger, Standardiser, Buffer
PLAIN = "PL"
ATTRIBUTES = ("demand", "supply", "utilisation", "allocation")
INITIAL = {"demand": 2, "supply": 3, "utilisation": 0.25, "allocation": 0.75}
WRITES = [1, 2.5, 7]
SETS = {
    "demand": [4, 6.5],
    "supply": [5, 8.5],
    "utilisation": [0.5, 0.875],
    "allocation": [0.625, 1.0],
}
OPS = (
    [["r", name] for name in ATTRIBUTES]
    + [["w", value] for value in WRITES]
    + [["set", name, value] for name in ATTRIBUTES for value in SETS[name]]
)

FIELDS = ["value", "demand", "supply", "utilisation", "allocation", "target",
          "consumption", "unknown"]
KNOWN_FIELDS = FIELDS[:-1]
LEVELS = [logging.DEBUG, logging.INFO, 35]
#: Logger configuration by position in the stack (0 = top) for the stack exploration
POSITION_CONFIGS = [
    {"name": "verif.c16.top", "level": logging.INFO, "fields": None},  # default message
    {"name": None, "level": logging.DEBUG, "fields": ["value", "demand"]},
    {"name": "verif.c16.low", "level": 35, "fields": ["allocation", "utilisation"]},
]


def template_of(fields):
    if not fields:
        return "demand changes"
    return " ".join("%s=%%(%s)s" % (field, field) for field in fields)


# -- objects ---------------------------------------------------------------------------


class Capture(logging.Handler):
    """Keeps every record together with the state of the pool at emission time"""

    def __init__(self):
        super().__init__(level=0)
        self.records = []
        self.pool = None
        self.attached = set()

    def emit(self, record):
        pool = self.pool
        self.records.append((record, {name: getattr(pool, name) for name in ATTRIBUTES}))

    def attach(self, name):
        if name not in self.attached:
            logger = logging.getLogger(name)
            logger.addHandler(self)
            logger.setLevel(1)
            logger.propagate = False
            self.attached.add(name)


CAPTURE = Capture()
_POOL_CLASS = []


def new_pool():
    if not _POOL_CLASS:
        from cobald.interfaces import Pool

        class SettablePool(Pool):
            """Pool whose every attribute is a plain, settable attribute"""

            demand, supply, utilisation, allocation = 0, 0, 0.0, 0.0

            def __init__(self, **state):
                for name, value in state.items():
                    setattr(self, name, value)

        _POOL_CLASS.append(SettablePool)
    return _POOL_CLASS[0](**INITIAL)


class Rejected(Exception):
    """A Logger constructor raised"""


def build(case, hist):
    """(layers top..bottom, pool) in the state after ``hist``"""
    from cobald.interfaces import PoolDecorator
    from cobald.decorator.logger import Logger
    from cobald.decorator.standardiser import Standardiser
    from cobald.decorator.buffer import Buffer

    pool = new_pool()
    target = pool
    layers = []
    stack = case["stack"]
    for index in range(len(stack) - 1, -1, -1):
        kind = stack[index]
        if kind == "P":
            target = PoolDecorator(target)
        elif kind == "S":
            target = Standardiser(target)
        elif kind == "B":
            target = Buffer(target)
        else:
            config = logger_config(case, index)
            kwargs = {"name": config["name"], "level": config["level"]}
            if config["fields"] is not None:
                kwargs["message"] = template_of(config["fields"])
            try:
                target = Logger(target, **kwargs)
            except Exception as err:  # noqa: B902
                raise Rejected("%s: %s" % (type(err).__name__, err)) from None
            CAPTURE.attach(config["name"] if config["name"] is not None else target.name)
        layers.insert(0, target)
    top = layers[0] if layers else pool
    for op in hist:
        apply(top, pool, op)
    CAPTURE.records = []
    CAPTURE.pool = pool
    return layers, pool


def logger_config(case, index):
    configs = case.get("configs")
    if configs:
        return configs[str(index)]
    return POSITION_CONFIGS[index]


def apply(top, pool, op):
    if op[0] == "r":
        return getattr(top, op[1])
    if op[0] == "w":
        top.demand = op[1]
    elif op[0] == "set":
        setattr(pool, op[1], op[2])
    else:
        raise ValueError(op)
    return None


def same(a, b):
    return a == b and type(a) is type(b)


def reached_loggers(stack):
    """Positions of the Loggers a demand written at the top arrives at: PoolDecorator,
    Logger and a Standardiser without limits hand it on, a Buffer keeps it"""
    reached = []
    for index, kind in enumerate(stack):
        if kind == "B":
            break
        if kind == "L":
            reached.append(index)
    return reached


# -- one transition --------------------------------------------------------------------


def check_step(case, prefix, op, shape=None):
    """[(key, text)] for the transition ``prefix`` -> ``prefix + [op]``

    ``shape`` (a list) receives an abstract of the state reached, for the statistics"""
    stack = case["stack"]
    plain = all(kind in PLAIN for kind in stack)
    problems = []
    try:
        expected_demand = {}
        if op[0] == "w":
            layers, pool = build(case, prefix)
            for index in reached_loggers(stack):
                below = layers[index + 1] if index + 1 < len(layers) else pool
                expected_demand[index] = below.demand
        layers, pool = build(case, prefix)
    except Rejected as err:
        return [("logger:valid-template-rejected",
                 "constructing the stack raised %s" % err)]
    except Exception as err:  # noqa: B902
        return [("replay-raises", "replaying %r raised %s: %s"
                 % (prefix, type(err).__name__, err))]
    top = layers[0] if layers else pool
    before = {name: getattr(pool, name) for name in ATTRIBUTES}
    try:
        result = apply(top, pool, op)
    except Exception as err:  # noqa: B902
        return [("%s-raises" % (op[0] if op[0] == "w" else "%s-%s" % (op[0], op[1])),
                 "%r raised %s: %s" % (op, type(err).__name__, err))]
    records = CAPTURE.records
    CAPTURE.records = []
    if shape is not None:
        shape.append(abstract(case, layers, pool))
    # -- values seen through the stack
    if op[0] == "r" and (op[1] != "demand" or plain):
        if not same(result, getattr(pool, op[1])):
            problems.append(("read:%s" % op[1], "%s read at the top is %r, the pool's is %r"
                             % (op[1], result, getattr(pool, op[1]))))
    if op[0] == "w" and plain and not same(pool.demand, op[1]):
        problems.append(("write:demand", "demand %r written at the top arrived as %r"
                         % (op[1], pool.demand)))
    for name in ATTRIBUTES:
        if name == "demand" and not plain:
            continue
        try:
            through = getattr(top, name)
        except Exception as err:  # noqa: B902
            problems.append(("read:%s-raises" % name, "reading %s after %r raised %s: %s"
                             % (name, op, type(err).__name__, err)))
            continue
        if not same(through, getattr(pool, name)):
            problems.append(("read:%s" % name, "after %r %s at the top is %r, the pool's is %r"
                             % (op, name, through, getattr(pool, name))))
    # -- log records
    expected = reached_loggers(stack) if op[0] == "w" else []
    if len(records) != len(expected):
        problems.append(("logger:record-count", "%r through %d Logger(s): %d record(s) emitted"
                         % (op, len(expected), len(records))))
        return problems
    # pair records with the Loggers by logger name and level where that is possible (so
    # that a wrong order is reported as such), by position otherwise
    names = {}
    for index in expected:
        config = logger_config(case, index)
        names[index] = config["name"] if config["name"] is not None else layers[index].name
    order, free = [], list(range(len(records)))
    for index in expected:
        match = [n for n in free if records[n][0].name == names[index]
                 and records[n][0].levelno == logger_config(case, index)["level"]]
        if not match:
            order = list(range(len(records)))
            break
        order.append(match[0])
        free.remove(match[0])
    for index, number in zip(expected, order):
        record, snapshot = records[number]
        config = logger_config(case, index)
        layer = layers[index]
        below = layers[index + 1] if index + 1 < len(layers) else pool
        where = "record of the Logger at position %d" % index
        if snapshot != before:
            problems.append(("logger:emitted-after-write",
                             "%s: emitted when the pool was %r, before the write it was %r"
                             % (where, snapshot, before)))
        name = names[index]
        if record.name != name:
            problems.append(("logger:name", "%s: logged to %r, configured %r"
                             % (where, record.name, name)))
        if record.levelno != config["level"]:
            problems.append(("logger:level", "%s: level %r, configured %r"
                             % (where, record.levelno, config["level"])))
        args = record.args
        if not isinstance(args, dict):
            problems.append(("logger:args", "%s: args are %r, not a mapping" % (where, args)))
            continue
        wanted = {"value": op[1], "demand": expected_demand[index],
                  "supply": before["supply"], "utilisation": before["utilisation"],
                  "allocation": before["allocation"]}
        for field, want in wanted.items():
            if field not in args or args[field] != want:
                problems.append(("logger:field:%s" % field, "%s: %s is %r, expected %r"
                                 % (where, field, args.get(field, "<missing>"), want)))
        if args.get("target") is not below:
            problems.append(("logger:field:target", "%s: target is %r, not the Logger's "
                             "target" % (where, args.get("target"))))
        try:
            message = record.getMessage()
        except Exception as err:  # noqa: B902
            problems.append(("logger:message-raises", "%s: formatting raised %s: %s"
                             % (where, type(err).__name__, err)))
            continue
        if config["fields"] is not None and not [k for k, _ in problems
                                                 if k.startswith("logger:")]:
            want = template_of(config["fields"]) % args
            if message != want:
                problems.append(("logger:message", "%s: message %r, the template gives %r"
                                 % (where, message, want)))
    if order != sorted(order):
        problems.append(("logger:record-order", "records of stacked Loggers were emitted in "
                         "the order %r (positions of the Loggers, top first)"
                         % [expected[order.index(n)] for n in range(len(order))]))
    return problems


def abstract(case, layers, pool):
    return (tuple(getattr(pool, name) for name in ATTRIBUTES),
            tuple(layer.demand for layer, kind in zip(layers, case["stack"]) if kind == "B"))


def explore(acc, case, depth):
    """Every history up to ``depth`` operations, each transition checked"""
    frontier = [[]]
    acc.states += 1
    loggers = "L" in case["stack"]
    for _ in range(depth):
        successors = []
        for hist in frontier:
            for op in OPS:
                shape = []
                problems = check_step(case, hist, op, shape)
                acc.transitions += 1
                interesting = op[0] == "w" and loggers or (
                    bool(case["stack"]) and any(o[0] != "r" for o in hist + [op]))
                acc.case(
                    nontrivial_key=repr((case, shape, op)) if interesting else None,
                    sample=(dict(case, hist=hist + [op])
                            if interesting and acc.transitions % 4999 == 0 else None),
                )
                acc.outcome((op[0], len(reached_loggers(case["stack"])) if op[0] == "w"
                             else op[1], all(k in PLAIN for k in case["stack"]),
                             bool(problems)))
                if problems:
                    # one key per broken transition: the first clause that fails
                    text = "; ".join(text for _, text in problems)
                    acc.violation(problems[0][0],
                                  "stack %r (top first) over the pool, history %r: %s"
                                  % (case["stack"], hist + [op], text),
                                  dict(case, kind="history", hist=hist + [op]),
                                  size=(len(case["stack"]), len(hist) + 1))
                    continue
                successors.append(hist + [op])
        frontier = successors
        acc.states += len(successors)


# -- Logger construction ---------------------------------------------------------------


def check_construction(case):
    """(key, text) if the constructor does not treat the template as documented"""
    fields = logger_config(case, 0)["fields"] or []
    try:
        build(case, [])
    except Rejected as err:
        if "unknown" in fields:
            return None
        return ("logger:valid-template-rejected",
                "template %r rejected: %s" % (template_of(fields), err))
    if "unknown" in fields:
        return ("logger:unknown-field-accepted",
                "template %r accepted by the constructor" % template_of(fields))
    return None


# -- shards ----------------------------------------------------------------------------


def shard_stack(args):
    _, stack, depth = args
    acc = Acc()
    explore(acc, {"stack": stack}, depth)
    return acc


def shard_config(args):
    _, fields, depth = args
    acc = Acc()
    for name, level in itertools.product(["verif.c16.given", None], LEVELS):
        case = {"stack": "L",
                "configs": {"0": {"name": name, "level": level, "fields": list(fields)}}}
        problem = check_construction(case)
        acc.case(nontrivial_key=repr(case))
        acc.outcome(("construct", "unknown" in fields))
        acc.count("logger-configurations")
        if problem:
            acc.violation(problem[0], problem[1], dict(case, kind="construct"), size=(1, 0))
        elif "unknown" not in fields:
            explore(acc, case, depth)
    return acc


# -- more about the Logger itself: odd unknown field names, renaming after construction ------

ODD_UNKNOWN = ["demand ", " demand", "target.demand", "pool-supply", "", "Demand", "demand_",
               "value2", "supply,", "%"]


class _Collect(logging.Handler):
    def __init__(self):
        super().__init__(level=1)
        self.seen = []

    def emit(self, record):
        self.seen.append(record.name)


def shard_logger_extra(args):
    from cobald.decorator.logger import Logger

    acc = Acc()
    # (1) a template naming an unknown field is rejected at construction - whatever the name
    for unknown, known, order in itertools.product(ODD_UNKNOWN, [None] + KNOWN_FIELDS[:3], (0, 1)):
        parts = ["u=%%(%s)s" % unknown] + (["k=%%(%s)s" % known] if known else [])
        template = " ".join(parts if order == 0 else reversed(parts))
        if known is None and order == 1:
            continue
        case = {"kind": "odd-template", "template": template}
        problem = run_logger_extra(case)
        acc.case(nontrivial_key=repr(case), sample=case if unknown == "" else None)
        acc.outcome(("odd-template", problem is None))
        if problem:
            acc.violation(problem[0], problem[1], case, size=(1, len(template)))
    # (1a) ... also when another field in front of it has a conversion that does not fit the
    #      values the constructor tries the template with
    for unknown, known, conversion, order in itertools.product(
            ["bogus", "Demand", ""], KNOWN_FIELDS[:4], ["x", "d", "c", ".2f", "s", "r"], (0, 1)):
        parts = ["k=%%(%s)%s" % (known, conversion), "u=%%(%s)s" % unknown]
        template = " ".join(parts if order == 0 else reversed(parts))
        case = {"kind": "odd-template", "template": template}
        problem = run_logger_extra(case)
        acc.case(nontrivial_key=repr(case), sample=case if conversion == "x" else None)
        acc.outcome(("odd-template-conversion", problem is None))
        if problem:
            acc.violation(problem[0], problem[1], case, size=(1, len(template)))
    # (1c) re-targeting a decorator inside a stack: everything above it follows
    for kinds, layer in itertools.product(
            ["PP", "LP", "PL", "PPP", "LPL", "PLP"], (0, 1, 2)):
        if layer >= len(kinds):
            continue
        case = {"kind": "retarget", "stack": kinds, "layer": layer}
        problem = run_logger_extra(case)
        acc.case(nontrivial_key=repr(case), sample=case)
        acc.outcome(("retarget", problem is None))
        if problem:
            acc.violation(problem[0], problem[1], case, size=(len(kinds), layer))
    # (1b) records are kept by handlers and formatted later: each one keeps describing its
    #      own write
    for writes in itertools.permutations(WRITES, 2):
        for template in (None, "v=%(value)s d=%(demand)s"):
            case = {"kind": "kept-records", "writes": list(writes), "template": template}
            problem = run_logger_extra(case)
            acc.case(nontrivial_key=repr(case), sample=case if template else None)
            acc.outcome(("kept-records", problem is None))
            if problem:
                acc.violation(problem[0], problem[1], case, size=(2, 1))
    # (2) the configured logger is the one configured *now*: renaming takes effect
    # (3) the logging configuration is the one in force *now*: a level that was disabled at
    #     an earlier write and is enabled since then (the logger's own level, an ancestor's,
    #     logging.disable) gets its record, and the other way round
    for mode, level, pattern in itertools.product(
            ("own", "ancestor", "disable"), LEVELS,
            ([False, True], [True, False, True], [False, False, True, True], [True, False])):
        case = {"kind": "level-change", "mode": mode, "level": level, "enabled": pattern}
        problem = run_logger_extra(case)
        acc.case(nontrivial_key=repr(case), sample=case if mode == "ancestor" else None)
        acc.outcome(("level-change", problem is None))
        if problem:
            acc.violation(problem[0], problem[1], case, size=(len(pattern), 0))
    names = ["verif.c16.first", "verif.c16.second", None, ""]
    for first, second, level in itertools.product(names, names, LEVELS):
        if first == second:
            continue
        case = {"kind": "rename", "names": [first, second], "level": level}
        problem = run_logger_extra(case)
        acc.case(nontrivial_key=repr(case), sample=case if level == 35 else None)
        acc.outcome(("rename", problem is None))
        if problem:
            acc.violation(problem[0], problem[1], case, size=(2, 0))
    return acc


def run_logger_extra(case):
    from cobald.decorator.logger import Logger

    pool = new_pool()
    if case["kind"] == "odd-template":
        try:
            Logger(pool, name="verif.c16.odd", message=case["template"])
        except Exception:  # noqa: B902 - rejected, as the statement demands
            return None
        return ("logger:unknown-field-accepted",
                "template %r (an unknown field) was accepted by the constructor"
                % case["template"])
    if case["kind"] == "retarget":
        from cobald.interfaces import PoolDecorator

        other = new_pool()
        other.demand, other.supply, other.utilisation, other.allocation = 11, 12, 0.5, 0.625
        layers, below = [], pool
        for number, kind in enumerate(reversed(case["stack"])):
            if kind == "L":
                below = Logger(below, name="verif.c16.retarget%d" % number)
            else:
                below = PoolDecorator(below)
            layers.append(below)
        layers.reverse()     # layers[0] is the top
        top = layers[0]
        for name in ATTRIBUTES:
            getattr(top, name)        # a first look through the stack as it was built
        bottom_up = list(reversed(layers))
        changed = bottom_up[case["layer"]]
        expected = other
        changed.target = other
        for name in ATTRIBUTES:
            through, direct = getattr(top, name), getattr(expected, name)
            if through != direct:
                return ("decorator:stale-after-retarget",
                        "stack %s: layer %d (from the bottom) was given another target; %s "
                        "read at the top is %r, the pool now underneath has %r"
                        % (case["stack"], case["layer"], name, through, direct))
        top.demand = 21
        if other.demand != 21 or pool.demand == 21:
            return ("decorator:write-after-retarget",
                    "stack %s after re-targeting layer %d: a write of 21 at the top gave "
                    "the new pool %r and the old pool %r" % (
                        case["stack"], case["layer"], other.demand, pool.demand))
        return None
    if case["kind"] == "kept-records":
        kept = []

        class Keep(logging.Handler):
            def emit(self, record):
                kept.append(record)

        logger = logging.getLogger("verif.c16.kept")
        handler = Keep(level=1)
        saved_state = (logger.level, logger.propagate)
        logger.addHandler(handler)
        logger.setLevel(1)
        logger.propagate = False
        try:
            kwargs = {"message": case["template"]} if case["template"] else {}
            decorated = Logger(pool, name="verif.c16.kept", **kwargs)
            expected = []
            for value in case["writes"]:
                expected.append((value, pool.demand))
                decorated.demand = value
            if len(kept) != len(expected):
                return ("logger:record-count", "%d records for %d writes"
                        % (len(kept), len(expected)))
            for record, (value, before) in zip(kept, expected):
                args = record.args
                if args.get("value") != value or args.get("demand") != before:
                    return ("logger:kept-record-rewritten",
                            "writes %r through one Logger: the record of the write of %r later "
                            "says value=%r demand=%r (expected demand %r)"
                            % (case["writes"], value, args.get("value"), args.get("demand"),
                               before))
                text = record.getMessage()
                if str(value) not in text:
                    return ("logger:kept-record-rewritten",
                            "the record of the write of %r later formats as %r" % (value, text))
        except Exception as err:  # noqa: B902
            return ("logger:kept-records-raises", "%s: %s" % (type(err).__name__, err))
        finally:
            logger.removeHandler(handler)
            logger.setLevel(saved_state[0])
            logger.propagate = saved_state[1]
        return None
    if case["kind"] == "level-change":
        return run_level_change(case, pool)
    collect = _Collect()
    default_name = type(pool).__qualname__
    loggers = [logging.getLogger(n) for n in ("verif.c16.first", "verif.c16.second",
                                              default_name, "")]
    saved = [(lg, lg.level, lg.propagate) for lg in loggers]
    try:
        for lg in loggers:
            lg.addHandler(collect)
            lg.setLevel(1)
            lg.propagate = False
        first, second = case["names"]
        decorated = Logger(pool, name=first, level=case["level"])
        decorated.demand = 1
        decorated.name = second
        decorated.demand = 2
        want = ["root" if n == "" else n if n is not None else default_name
                for n in (first, second)]
        if decorated.name != want[1]:
            return ("logger:name-not-updated", "name reads %r after setting %r"
                    % (decorated.name, second))
        if collect.seen != want:
            return ("logger:renamed-logger-not-used",
                    "Logger(name=%r), write, name=%r, write: records went to %r, expected %r"
                    % (first, second, collect.seen, want))
    except Exception as err:  # noqa: B902
        return ("logger:rename-raises", "%s: %s" % (type(err).__name__, err))
    finally:
        for lg, level, propagate in saved:
            lg.removeHandler(collect)
            lg.setLevel(level)
            lg.propagate = propagate
    return None


def run_level_change(case, pool):
    """Writes through one Logger while the logging configuration enables / disables its
    level in between; every write made while the level is enabled gives one record"""
    from cobald.decorator.logger import Logger

    level = case["level"]
    parent, child = logging.getLogger("verif.c16lc"), logging.getLogger("verif.c16lc.pool")
    collect = _Collect()
    saved = [(lg, lg.level, lg.propagate) for lg in (parent, child)]
    saved_disable = logging.root.manager.disable

    def switch(enabled):
        if case["mode"] == "own":
            child.setLevel(level if enabled else level + 1)
        elif case["mode"] == "ancestor":
            parent.setLevel(level if enabled else level + 1)
        else:
            logging.disable(logging.NOTSET if enabled else level)

    try:
        parent.addHandler(collect)
        parent.propagate = False
        parent.setLevel(1)
        child.setLevel(logging.NOTSET if case["mode"] == "ancestor" else 1)
        decorated = Logger(pool, name=child.name, level=level)
        want = 0
        for number, enabled in enumerate(case["enabled"]):
            switch(enabled)
            decorated.demand = number + 1
            want += 1 if enabled else 0
            if pool.demand != number + 1:
                return ("logger:write-lost", "write %d did not reach the pool" % (number + 1))
            if len(collect.seen) != want:
                return ("logger:level-configuration-of-an-earlier-write",
                        "level %d %s by %s over the writes: after write %d there are %d "
                        "records, expected %d" % (
                            level, ["enabled" if e else "disabled" for e in case["enabled"]],
                            case["mode"], number + 1, len(collect.seen), want))
    except Exception as err:  # noqa: B902
        return ("logger:level-change-raises", "%s: %s" % (type(err).__name__, err))
    finally:
        logging.disable(saved_disable)
        parent.removeHandler(collect)
        for lg, lvl, propagate in saved:
            lg.setLevel(lvl)
            lg.propagate = propagate
    return None


def shard(args):
    with warnings.catch_warnings():
        warnings.simplefilter("ignore")
        if args[0] == "logger-extra":
            return shard_logger_extra(args)
        return (shard_stack if args[0] == "stack" else shard_config)(args)


# ---------------------------------------------------------------------------------------


def stacks(max_depth=3):
    for depth in range(max_depth + 1):
        for kinds in itertools.product(KINDS, repeat=depth):
            yield "".join(kinds)


def templates():
    for size in (0, 1, 2):
        for fields in itertools.permutations(FIELDS, size):  # subsets, in every order
            yield fields


def run(ctx):
    depth = 3 if ctx.quick else 4
    config_depth = 2 if ctx.quick else 3
    shards = [("stack", stack, depth) for stack in stacks()]
    shards += [("config", fields, config_depth) for fields in templates()]
    shards.append(("logger-extra",))
    ctx.acc = Acc()
    ctx.pmap(shard, shards)
    ctx.acc.settle()  # per key, the shallowest stack and shortest history
    ctx.meta.update(
        rule="every stack of depth 0..3 over PoolDecorator/Logger/Standardiser()/Buffer x "
             "every operation history up to the depth bound (no pruning: a state is the "
             "history), oracle after every transition; every Logger configuration (name "
             "given/None x level x template over every subset of <= 2 of the field names, in "
             "both orders) "
             "constructed, and those without the unknown field explored on a single Logger "
             "up to the configuration depth; non-trivial: a write through a Logger, or a "
             "history through at least one decorator that changes something",
        exhaustive=True,
        bounds={"stack_depth": 3, "stacks": len(list(stacks())), "history_depth": depth,
                "config_history_depth": config_depth, "operations": OPS,
                "initial_pool": INITIAL, "levels": LEVELS, "fields": FIELDS,
                "templates": len(list(templates())),
                "position_configs": POSITION_CONFIGS},
    )
    ctx.assumptions += [
        "demand reads/writes are compared with the pool's only through stacks made of "
        "PoolDecorator and Logger; through a Standardiser or Buffer only supply, "
        "utilisation and allocation are compared",
        "a demand written at the top reaches a Logger unless a Buffer is above it (no "
        "Buffer service is running); a Standardiser with default arguments hands the "
        "written value on (compared by ==)",
        "the target's demand before a write is what the object below the Logger reports "
        "on an identically built copy; passing through means equal value and type",
        "for name=None the configured logger is the one Logger.name reports; a rejected "
        "template may raise any Exception; the value of the deprecated 'consumption' "
        "field is not checked; warnings are silenced",
        "reads and changes of the pool emit no record (exactly one record per write)",
    ]


def replay(data):
    case = {key: value for key, value in data.items() if key in ("stack", "configs")}
    with warnings.catch_warnings():
        warnings.simplefilter("ignore")
        if data["kind"] in ("odd-template", "rename", "kept-records"):
            problem = run_logger_extra(data)
            return problem and problem[1]
        if data["kind"] == "construct":
            problem = check_construction(case)
            return problem and problem[1]
        hist = data["hist"]
        for index, op in enumerate(hist):
            problems = check_step(case, hist[:index], op)
            if problems:
                return "after %r: %s" % (hist[:index + 1],
                                         "; ".join(text for _, text in problems))
    return None
