"""
C12 - runtime lifecycle: exclusive accept, shutdown always completes, restart possible.

Engine: cosched.  Histories of up to three ServiceRunner instances used one after another
(accept on the main or on a second thread; ended by shutdown() from an outside thread or a
thread payload, by SIGINT, or by a failing payload), a concurrent accept of another instance
while one is running, several payload populations at shutdown time, under every schedule
within the deviation bound.  After every history a fresh runner must accept again.
"""
import itertools

from vlib.cosched import harness as H
from vlib.cosched import kit as K
from vlib.cosched.sched import Abort

ENDS = ["shutdown:outside", "shutdown:payload", "sigint", "fail:asyncio", "fail:trio",
        "fail:threading"]
#: shutdown() asked for by a coroutine payload, through a helper thread it waits for
HELPER_ENDS = ["shutdown:from-trio", "shutdown:from-asyncio"]
#: failures that leave accept() as something else than RuntimeError
BASE_ENDS = ["fail:threading:SystemExit", "fail:asyncio:SystemExit", "fail:trio:UserBaseError",
             "fail:threading:GeneratorExit"]
POPULATIONS = ["none", "sleepers", "blocked", "submitter", "shielded", "stubborn",
               "cross-calls", "adopting:trio", "adopting:asyncio", "adopting:threading",
               # the adopter is a coroutine payload itself (adopted flavour @ adopter)
               "adopting:trio@asyncio", "adopting:asyncio@trio", "adopting:threading@asyncio",
               "adopting:asyncio@asyncio", "adopting:trio@trio",
               "spinning-adopter:asyncio", "spinning-adopter:trio"]
ACCEPT_DELAY = 1.0


class Scenario:
    def __init__(self, params):
        self.params = params
        self.phases = []

    def main(self, env):
        if self.params.get("simultaneous"):
            return self.simultaneous(env)
        for index, phase in enumerate(self.params["phases"] + [
                {"end": "shutdown:outside", "thread": "main", "population": "none",
                 "stop_at": 0.0, "final": True}]):
            record = {"index": index, "phase": phase, "outcome": None, "kit": None}
            self.phases.append(record)
            self.run_phase(env, index, phase, record)
            if record["outcome"] is None:
                break

    def simultaneous(self, env):
        """Two runners call accept() at the same moment: one is admitted, the other refused"""
        from cobald.daemon.runners.service import ServiceRunner

        runners = {"a": ServiceRunner(accept_delay=ACCEPT_DELAY),
                   "b": ServiceRunner(accept_delay=ACCEPT_DELAY)}

        def rescue(name):
            runners[name].running.wait()
            env.log("admitted", who=name)
            env.sleep(0.5)
            runners[name].shutdown()
            env.log("rescued", who=name)

        def accept(name):
            env.log("sim-accept-call", who=name)
            try:
                runners[name].accept()
            except Abort:
                raise
            except BaseException as err:  # noqa: B036
                env.log("sim-accept-ended", who=name, how="raised", exc=err)
            else:
                env.log("sim-accept-ended", who=name, how="returned")

        for name in runners:
            env.spawn(rescue, "rescue-" + name, name)
        other = env.spawn(accept, "accept-b", "b")
        accept("a")
        other.join()

    def check_simultaneous(self, ex):
        violations = []
        admitted = [(s, d["who"]) for s, n, w, e, d in ex.log if e == "admitted"]
        ended = {d["who"]: (s, d) for s, n, w, e, d in ex.log if e == "sim-accept-ended"}
        if ex.deadlock:
            return {"violations": [("simultaneous:deadlock", repr(ex.deadlock_info))],
                    "outcome": "deadlock"}
        if len(ended) < 2:
            violations.append(("simultaneous:accept-did-not-end",
                               "of two simultaneous accept() calls %r ended" % sorted(ended)))
        elif len(admitted) != 1:
            violations.append(("simultaneous:admitted-%d" % len(admitted),
                               "two simultaneous accept() calls: %d runners were admitted (%r)"
                               % (len(admitted), ended)))
        else:
            winner = admitted[0][1]
            loser = "b" if winner == "a" else "a"
            seq, data = ended[loser]
            if data["how"] != "raised" or not isinstance(data["exc"], RuntimeError):
                violations.append(("simultaneous:loser-not-refused",
                                   "the accept() that lost ended with %r" % (data,)))
            elif seq > ended[winner][0]:
                violations.append(("simultaneous:loser-waited",
                                   "the accept() that lost was refused only after the other "
                                   "runner had ended: it waited instead of raising"))
            if ended[winner][1]["how"] != "returned":
                violations.append(("simultaneous:winner-failed",
                                   "the admitted accept() ended with %r" % (ended[winner][1],)))
        return {"violations": violations,
                "outcome": repr((tuple(who for _s, who in admitted),
                                 tuple(sorted((k, v[1]["how"]) for k, v in ended.items()))))}

    def run_phase(self, env, index, phase, record):
        from cobald.daemon.runners.service import ServiceRunner

        tag = "p%d" % index
        runtime = ServiceRunner(accept_delay=ACCEPT_DELAY)
        kit = record["kit"] = K.Kit(env, runtime)
        end, population = phase["end"], phase["population"]
        stop_at = phase.get("stop_at", 0.5)

        def running_or_over():
            """Wait for the runner to report running; False if its accept() ended first (a
            payload may fail before the runner ever gets that far)"""
            env.sched.wait_until(
                lambda: runtime.running.peek() or record["outcome"] is not None,
                kind="event-wait")
            return runtime.running.peek()

        cleanup = 0.0
        if population in ("sleepers", "shielded"):
            kit.submit({"id": tag + "-asyncio", "flavour": "asyncio", "steps": [("forever", 0.4)],
                        "cleanup": ("sync", 1)})
            kit.submit({"id": tag + "-trio", "flavour": "trio", "steps": [("forever", 0.4)],
                        "cleanup": ("shield", 2.0) if population == "shielded" else None})
            cleanup = 2.0 if population == "shielded" else 0.0
        if population == "cross-calls":
            # a trio payload that keeps calling into the asyncio loop (one direction only: calls in
            # both directions deadlock by construction)
            kit.submit({"id": tag + "-trio", "flavour": "trio", "steps": [
                ("repeat-execute", {"id": tag + "-x", "flavour": "asyncio",
                                    "steps": [("sleep", 0.05)]}, 0.05)]})
        if population.startswith("spinning-adopter:"):
            # a coroutine payload that hands follow-up work to adopt() at every turn of its
            # loop, on the loop's own thread, right through the shutdown
            flavour = population.split(":")[1]
            kit.submit({"id": tag + "-spinner", "flavour": flavour, "steps": [
                ("sleep", max(stop_at - 0.1, 0.0)),
                ("spin-adopt", {"id": tag + "-follow", "flavour": flavour, "steps": []}, 60),
                ("forever", 0.4)]})
        if population.startswith("adopting:"):
            # a thread payload keeps adopting payloads of one flavour through the whole
            # shutdown, which a trio payload with shielded cleanup stretches
            kit.submit({"id": tag + "-trio", "flavour": "trio", "steps": [("forever", 0.4)],
                        "cleanup": ("shield", 1.0)})
            target, _, adopter = population.split(":")[1].partition("@")
            kit.submit({"id": tag + "-adopter", "flavour": adopter or "threading", "steps": [
                ("sleep", max(stop_at - 0.2, 0.0)),
                ("repeat-adopt", {"id": tag + "-late", "flavour": target,
                                  "steps": [("forever", 0.4)]}, 0.15, 12)]})
            cleanup = 1.0
        if population == "stubborn":
            kit.submit({"id": tag + "-asyncio", "flavour": "asyncio",
                        "steps": [("stubborn", 2, 0.3)]})
            cleanup = 1.0
        if population == "blocked":
            kit.submit({"id": tag + "-blocked", "flavour": "threading", "steps": [("block",)]})
        record["cleanup"] = cleanup

        def end_action():
            env.log("end-call", phase=index, end=end)
            try:
                runtime.shutdown()
            except Abort:
                raise
            except BaseException as err:  # noqa: B036
                env.log("shutdown-raised", phase=index, exc=err)
            else:
                env.log("shutdown-returned", phase=index)

        def shutdown_payload():
            if not running_or_over():
                return
            if stop_at:
                env.sleep(stop_at)
            end_action()

        if end in HELPER_ENDS:
            def request(_env):
                if running_or_over():   # the property speaks of a runner that reports running
                    end_action()

            env.shared["request-stop-%d" % index] = request
            kit.submit({"id": tag + "-requester", "flavour": end.split("-")[1],
                        "steps": [("sleep", stop_at), ("to-thread-call",
                                                       "request-stop-%d" % index),
                                  ("forever", 0.4)]})
        if end == "shutdown:payload":
            runtime.adopt(shutdown_payload, flavour=K.FLAVOURS["threading"])
        elif end.startswith("fail:"):
            parts = end.split(":")
            kit.submit({"id": tag + "-fail", "flavour": parts[1],
                        "steps": ([("sleep", stop_at)] if stop_at else [])
                        + [("log", "end-call"),
                           ("raise", parts[2] if len(parts) > 2 else "LookupError")]})
        elif end == "sigint":
            env.sigint(lambda s: runtime.running.peek(), deadline=env.now + stop_at + 0.01,
                       cost=phase.get("sigint_cost", 1), name="~sigint%d" % index)

        def driver():
            if not running_or_over():
                return
            env.log("running-seen", phase=index)
            if stop_at:
                env.sleep(stop_at)
            if population == "submitter":
                kit.submit({"id": tag + "-late", "flavour": phase.get("late_flavour", "trio"),
                            "steps": [("forever", 0.4)]})
            if end == "shutdown:outside":
                end_action()

        env.spawn(driver, "driver%d" % index)

        def second_caller():
            if not running_or_over():
                return
            if stop_at:
                env.sleep(stop_at)
            env.log("second-shutdown-call", phase=index)
            try:
                runtime.shutdown()
            except Abort:
                raise
            except BaseException as err:  # noqa: B036
                env.log("second-shutdown-raised", phase=index, exc=err)
            else:
                env.log("second-shutdown-returned", phase=index)

        if phase.get("second_shutdown") == "concurrent":
            env.spawn(second_caller, "second%d" % index)

        def rescue(other):
            # only reached if the concurrent accept was admitted (legitimately so when the
            # first runner had already ended): stop that runtime again
            other.running.wait()
            env.log("concurrent-admitted", phase=index)
            other.shutdown()

        def concurrent():
            if not running_or_over():
                return
            env.sleep(phase.get("concurrent_at", 0.2))
            # a refused accept must leave everything as it was: the next one is refused too
            for attempt in range(phase.get("concurrent_count", 1)):
                other = ServiceRunner(accept_delay=ACCEPT_DELAY)
                env.spawn(rescue, "rescue%d-%d" % (index, attempt), other)
                env.log("concurrent-accept-call", phase=index)
                try:
                    other.accept()
                except Abort:
                    raise
                except BaseException as err:  # noqa: B036
                    env.log("concurrent-accept-raised", phase=index, exc=err)
                else:
                    env.log("concurrent-accept-returned", phase=index)
                    break
                env.sleep(0.1)

        concurrent_thread = None
        if phase.get("concurrent"):
            concurrent_thread = env.spawn(concurrent, "concurrent%d" % index)

        def blocking():
            env.log("accept-call", phase=index)
            try:
                runtime.accept()
            except Abort:
                raise
            except BaseException as err:  # noqa: B036
                record["outcome"] = ("raised", err)
                env.log("accept-ended", phase=index, how="raised", exc=err)
            else:
                record["outcome"] = ("returned", None)
                env.log("accept-ended", phase=index, how="returned")

        if phase.get("thread") == "second":
            thread = env.spawn(blocking, "accept%d" % index)
            thread.join()
        else:
            blocking()
        if phase.get("second_shutdown") == "after" and record["outcome"] is not None:
            env.log("second-shutdown-call", phase=index)
            try:
                runtime.shutdown()
            except Abort:
                raise
            except BaseException as err:  # noqa: B036
                env.log("second-shutdown-raised", phase=index, exc=err)
            else:
                env.log("second-shutdown-returned", phase=index)
        # let the drivers of this phase finish before the next runner starts
        if concurrent_thread is not None:
            concurrent_thread.join()
        env.sleep(0.5)

    def check(self, ex):
        if self.params.get("simultaneous"):
            return self.check_simultaneous(ex)
        violations = []
        if ex.deadlock:
            return {"violations": [("deadlock", "deadlock: %r" % (ex.deadlock_info,))],
                    "outcome": "deadlock"}
        outcomes = []
        for record in self.phases:
            index, phase = record["index"], record["phase"]
            end = phase["end"]
            label = "final" if phase.get("final") else end
            mine = [(s, n, w, e, d) for s, n, w, e, d in ex.log
                    if isinstance(d, dict) and (d.get("phase") == index
                                                or str(d.get("id", "")).startswith("p%d-" % index))]
            running_seen = [n for s, n, w, e, d in mine if e == "running-seen"]
            end_call = [n for s, n, w, e, d in mine if e == "end-call"]
            ended = [(n, d) for s, n, w, e, d in mine if e == "accept-ended"]
            outcomes.append((label, record["outcome"] and record["outcome"][0]))
            previous = "after-" + self.phases[index - 1]["phase"]["end"] if index else "first"
            guard_error = bool(ended) and record["outcome"][0] == "raised" and isinstance(
                record["outcome"][1], RuntimeError) and record["outcome"][1].__cause__ is None
            if guard_error or (not running_seen and not ended):
                why = ended[0][1].get("exc") if ended else "accept() never reported running"
                violations.append((
                    "%s:accept-does-not-start:%s" % (label, previous),
                    "runner %d (%s) did not start accepting: %r" % (index, previous, why)))
                break
            if not running_seen and end.startswith("shutdown") and end_call:
                # the request itself waited for `running`; the observer thread simply was
                # not scheduled before the end
                running_seen = [0.0]
            if not running_seen and end == "sigint" and any(
                    e == "sigint-raised" for s, n, w, e, d in ex.log):
                # the signal is only sent once `running` is set; the observer thread simply
                # was not scheduled before the end
                running_seen = [0.0]
            if not running_seen:
                # ended before reporting running: only legitimate for a failing payload
                if not end.startswith("fail:") or record["outcome"][0] != "raised":
                    violations.append(("%s:ended-before-running" % label,
                                       "accept() of runner %d ended (%r) without ever running"
                                       % (index, record["outcome"])))
                continue
            if not ended:
                violations.append(("%s:accept-did-not-end" % label,
                                   "accept() of runner %d still running at the horizon "
                                   "(end=%s at t=%r)" % (index, end, end_call)))
                break
            how = record["outcome"][0]
            if end.startswith("shutdown") or end == "sigint":
                racing_failure = False
                if how != "returned" and not racing_failure:
                    violations.append(("%s:accept-raised" % label,
                                       "accept() raised %r after %s" % (record["outcome"][1], end)))
                if end.startswith("shutdown"):
                    if not any(e == "shutdown-returned" for s, n, w, e, d in mine):
                        raised = [d["exc"] for s, n, w, e, d in mine if e == "shutdown-raised"]
                        violations.append(("%s:shutdown-did-not-return" % label,
                                           "shutdown() did not return normally: %r" % raised))
                    if end_call:
                        limit = ACCEPT_DELAY + record["cleanup"] + 1.0
                        if ended[0][0] - end_call[0] > limit + 1e-9:
                            violations.append((
                                "%s:too-slow" % label,
                                "accept() ended %.2fs after shutdown() was called (bound %.2fs)"
                                % (ended[0][0] - end_call[0], limit)))
            else:
                if how != "raised":
                    violations.append(("%s:failure-ignored" % label,
                                       "accept() returned normally after a payload failure"))
            if phase.get("second_shutdown"):
                called = any(e == "second-shutdown-call" for s, n, w, e, d in mine)
                returned = any(e == "second-shutdown-returned" for s, n, w, e, d in mine)
                raised = [d["exc"] for s, n, w, e, d in mine if e == "second-shutdown-raised"]
                if called and not returned:
                    violations.append((
                        "%s:second-shutdown-%s:%s" % (
                            label, phase["second_shutdown"],
                            "raised-%s" % type(raised[0]).__name__ if raised else "hangs"),
                        "a second shutdown() (%s) %s" % (
                            phase["second_shutdown"],
                            "raised %r" % (raised[0],) if raised else "did not return")))
            if phase.get("concurrent"):
                ended_seq = [s for s, n, w, e, d in mine if e == "accept-ended"][0]
                admitted = [s for s, n, w, e, d in mine if e == "concurrent-admitted"]
                raised = [(s, d["exc"]) for s, n, w, e, d in mine
                          if e == "concurrent-accept-raised"]
                if admitted and admitted[0] < ended_seq:
                    violations.append(("%s:concurrent-accept-allowed" % label,
                                       "a second runner was accepting while runner %d was "
                                       "still accepting" % index))
                seen = [s for s, n, w, e, d in mine if e == "running-seen"]
                called = [s for s, n, w, e, d in mine if e == "concurrent-accept-call"]
                results = [(s, e) for s, n, w, e, d in mine
                           if e in ("concurrent-accept-raised", "concurrent-accept-returned")]
                # "certainly accepting": reported running, and nothing has asked it to end yet
                # (an accept that arrives while the runner winds down may find the guard free)
                winding_down = [s for s, n, w, e, d in ex.log
                                if e in ("sigint-raised", "sigint-delivered")] + [
                    s for s, n, w, e, d in mine if e == "end-call"] + [ended_seq]
                certain_until = min(winding_down)
                for number, call in enumerate(called):
                    # called while the first runner was certainly accepting: it has to be
                    # refused, not admitted and not made to wait for its turn
                    if not (seen and seen[0] < call < certain_until):
                        continue
                    until = called[number + 1] if number + 1 < len(called) else 1 << 60
                    result = [e for s, e in results if call < s < until]
                    let_in = [s for s in admitted if call < s < until]
                    if let_in or result != ["concurrent-accept-raised"]:
                        violations.append((
                            "%s:concurrent-accept-not-refused" % label
                            + ("" if number == 0 else ":after-a-refused-one"),
                            "accept() of another runner (attempt %d), called while runner %d "
                            "was accepting, %s instead of raising RuntimeError" % (
                                number + 1, index,
                                "was admitted" if let_in else "did not return")))
                        break
                for seq, exc in raised:
                    if seq < ended_seq and not admitted and not isinstance(exc, RuntimeError):
                        violations.append(("%s:concurrent-accept-wrong-error" % label,
                                           "the concurrent accept raised %r" % (exc,)))
                if raised and not admitted and raised[0][0] < ended_seq and \
                        phase["population"] in ("sleepers", "shielded"):
                    # undisturbed: the payloads keep running until the end action
                    limit = [s for s, n, w, e, d in mine
                             if e in ("end-call", "sigint-delivered")]
                    limit = min(limit + [ended_seq])
                    sig = [s for s, n, w, e, d in ex.log if e == "sigint-raised"]
                    if end == "sigint" and sig:
                        limit = min(limit, min(sig))
                    stopped = [d.get("id") for s, n, w, e, d in mine
                               if e in ("cancelled", "left") and raised[0][0] < s < limit
                               and not str(d.get("id", "")).endswith("-fail")]
                    if stopped:
                        violations.append(("%s:concurrent-accept-disturbs" % label,
                                           "payloads %r stopped after the rejected accept"
                                           % stopped))
        return {"violations": violations, "outcome": repr(tuple(outcomes))}


def build(spec):
    return Scenario(spec["params"])


def scenario_params(tier):
    out = []
    stops = [0.0, 0.5] if tier == "quick" else [0.0, 0.05, 0.5, 1.0]
    for end, thread, population, stop_at, concurrent in itertools.product(
            ENDS, ["main", "second"], POPULATIONS, stops, [False, True]):
        if end == "sigint" and thread == "second":
            continue
        if population.startswith(("adopting:", "spinning-adopter:")) and (
                thread != "main" or concurrent or stop_at != 0.5):
            continue
        if tier == "quick" and concurrent and stop_at == 0.0:
            continue
        if tier == "quick" and thread == "second" and population in (
                "submitter", "shielded", "stubborn", "cross-calls"):
            continue
        phase = {"end": end, "thread": thread, "population": population, "stop_at": stop_at,
                 "concurrent": concurrent, "sigint_cost": 1 if tier == "quick" else 0}
        if concurrent and stop_at >= 0.5:
            phase["concurrent_count"] = 2
        out.append({"phases": [phase]})
        if population == "submitter" and tier == "thorough":
            for flavour in ("asyncio", "threading"):
                out.append({"phases": [dict(phase, late_flavour=flavour)]})
    for end, population, second, stop_at in itertools.product(
            ENDS[:2], ["none", "sleepers", "shielded"], ["concurrent", "after"], [0.0, 0.5]):
        out.append({"phases": [{"end": end, "thread": "main", "population": population,
                                "stop_at": stop_at, "second_shutdown": second}]})
    for end, population, stop_at in itertools.product(
            HELPER_ENDS, ["none", "sleepers", "shielded"], [0.0, 0.5]):
        out.append({"phases": [{"end": end, "thread": "main", "population": population,
                                "stop_at": stop_at}]})
    for end, population in itertools.product(BASE_ENDS, ["none", "sleepers"]):
        out.append({"phases": [{"end": end, "thread": "main", "population": population,
                                "stop_at": 0.5}]})
    out.append({"simultaneous": True, "phases": []})
    # histories of two runners (plus the final one)
    for index, (end_a, end_b) in enumerate(itertools.product(ENDS, ENDS)):
        thread_a = "second" if index % 2 and end_a != "sigint" else "main"
        thread_b = "second" if index % 3 == 0 and end_b != "sigint" else "main"
        out.append({"phases": [
            {"end": end_a, "thread": thread_a, "population": "sleepers", "stop_at": 0.5,
             "sigint_cost": 1},
            {"end": end_b, "thread": thread_b, "population": "blocked", "stop_at": 0.3,
             "sigint_cost": 1}]})
    return out


def run(ctx):
    bound = 1 if ctx.quick else 2
    in_core = (lambda params: True) if ctx.quick else H.core_scenarios(scenario_params)
    specs = [{
        "module": "checks.c12", "params": params,
        # thorough: two deviations for the quick-tier histories of one runner accepting on
        # the main thread without a concurrent accept (the full set is out of reach in time)
        "bound": bound if in_core(params) and (ctx.quick or (
            len(params.get("phases", ())) == 1 and params["phases"][0]["thread"] == "main"
            and not params["phases"][0].get("concurrent"))) else 1,
        "opts": {"time_horizon": 60.0, "drain": 2.0, "max_points": 12000,
                 "spin_time": 0.05 if any("spinning" in phase["population"]
                                          for phase in params.get("phases", ())) else 0.0,
                 "free_switch_cost": 1,
                     "time_jump_cost": None if ctx.quick else 1},
        "budget": 3000 if ctx.quick else 8000,
    } for params in scenario_params(ctx.tier)]
    if ctx.quick:
        # the shutdown-right-after-running window only exists between two source lines
        specs += H.line_variants(
            specs, lambda p: p.get("simultaneous") or len(p["phases"]) == 1 and p["phases"][0]["stop_at"] == 0.0
            and p["phases"][0]["population"] == "none" and not p["phases"][0].get("concurrent")
            and p["phases"][0]["end"] in ("shutdown:outside", "shutdown:payload")
            and p["phases"][0]["thread"] == "main")
    else:
        specs += H.line_variants(
            specs, lambda p: p.get("simultaneous") or len(p["phases"]) == 1
            and p["phases"][0]["stop_at"] in (0.0, 0.05)
            and p["phases"][0]["end"] not in HELPER_ENDS
            and p["phases"][0]["population"] in ("none", "submitter"))
    ctx.pmap(H.shard, specs, cost=lambda spec: len(spec["params"]["phases"])
             + 2 * bool(spec["opts"].get("line_points")))
    H.finish(
        ctx, specs,
        rule="histories of 1-2 runner instances (+ a final fresh one) over end kinds (shutdown "
             "from an outside thread / thread payload, SIGINT, failing payload per flavour) x "
             "accept thread x population x shutdown instant x concurrent accept of another "
             "instance; every schedule within the deviation bound; non-trivial = a schedule with a deviation"
             " (all explored schedules are distinct)",
        bounds={"deviation_bound": bound, "granularity": "synchronisation operations",
                "shutdown_bound_s": "accept_delay + cleanup + 1 (virtual seconds)"},
        assumptions=["shutdown() is called from threads other than the runtime's loop threads; "
                     "a failure racing a shutdown is not driven here"],
    )


replay = H.replay
