"""
C14 - config sections are validated, then digested once each in constraint order.

Bounded-exhaustive enumeration (smallscope): plugin sets of 0..3 installed section plugins
plus one name that is *not* installed; every assignment of ``before`` / ``after``
relations of every plugin to every other plugin and to the absent name (acyclic between
the installed plugins); every ``required`` flag vector; every vector of digest results
(``None`` / a value); every configuration mapping over the plugins' sections, one unknown
section and ``logging``.

Seam: ``cobald.daemon.core.config.get_entrypoints`` (the entry point scanner imported into
that module) is replaced by a function returning fake entry point objects
(``name``, ``load()``, ``extras``).  ``load()`` hands out a recording digest that got its
requirements from the real ``cobald.daemon.plugins.constraints`` decorator.  Everything
else - ``SectionPlugin.load``, ``load_section_plugins``, ``load_configuration`` - is the
real code.  The seam is bound by running a slice of the cases through both the fake entry
points and a real ``*.dist-info/entry_points.txt`` directory on ``sys.path`` (scanned by
the real ``entrypoints.get_group_all``): both routes must give the same observation.
"""
import functools
import itertools
import logging
import os
import shutil
import sys
import tempfile
import types

from vlib.core import Acc

NAMES = ("pa", "pb", "pc")
ABSENT = "zz"
UNKNOWN = "unk"
ODD_UNKNOWN = ["", 0, None, False]
GROUP = "verif.c14.sections"
DYN_MODULE = "verif_c14_dyn"
NONE, BEFORE, AFTER = "-", "before", "after"
RELATIONS = (NONE, BEFORE, AFTER)


class SeamError(Exception):
    """The harness does not fit the code under test (never a verdict)"""


# ---------------------------------------------------------------------------------------
# case construction
#
# A case is a JSON-able dict:
#   n         number of installed plugins (the first n of NAMES, in entry point order)
#   edges     [[plugin, "before"|"after", target], ...]  target: installed plugin or ABSENT
#   required  [bool] * n
#   returns   [bool] * n      True: the digest returns a (non-None) value
#   sections  [names]         installed plugins whose section is in the configuration
#   unknown   bool            the configuration has a section nobody claims
#   logging   bool            the configuration has a logging section
#   route     "seam" | "distinfo"


def section_content(name):
    """Content of a plugin's section: a fresh object per case (None for the last plugin:
    a section that is present but empty, like ``pc:`` in YAML)"""
    return {"pa": {"content-of": "pa"}, "pb": ["content-of", "pb"], "pc": None}[name]


def digest_value(name):
    """What a value-returning digest returns: fresh objects, two of them falsy"""
    return {"pa": [], "pb": {"result-of": "pb"}, "pc": 0}[name]


def slots(n):
    """(plugin, target) pairs that may carry a relation, in a fixed order: first those
    between installed plugins, then those to the absent name"""
    names = NAMES[:n]
    inner = [(p, t) for p in names for t in names if p != t]
    outer = [(p, ABSENT) for p in names]
    return inner, outer


def installed_order_pairs(case):
    """{(earlier, later): how declared} for constraints between installed plugins"""
    installed = set(NAMES[: case["n"]])
    pairs = {}
    for plugin, relation, target in case["edges"]:
        if target not in installed:
            continue  # constraints naming plugins that are not installed are ignored
        pair = (plugin, target) if relation == BEFORE else (target, plugin)
        pairs.setdefault(pair, relation)
    return pairs


def acyclic(pairs, names):
    """Whether the 'earlier -> later' pairs admit an order (Kahn, plain)"""
    remaining = set(names)
    while remaining:
        free = [x for x in remaining
                if not any(a in remaining and b == x for a, b in pairs)]
        if not free:
            return False
        remaining -= set(free)
    return True


# ---------------------------------------------------------------------------------------
# running the real code


class Recorder:
    def __init__(self):
        self.calls = []  # (plugin name, the object received)


def make_digest(name, recorder, value):
    def digest(content):
        recorder.calls.append((name, content))
        return value

    digest.__name__ = digest.__qualname__ = "digest_" + name
    return digest


class FakeEntryPoint:
    """What cobald uses of an ``entrypoints.EntryPoint``"""

    def __init__(self, name, obj):
        self.name = name
        self.module_name = DYN_MODULE
        self.object_name = "digest_" + name
        self.extras = None
        self.distro = None
        self._obj = obj

    def load(self):
        return self._obj

    def __repr__(self):
        return "FakeEntryPoint(%r)" % self.name


def build_digests(case, recorder):
    from cobald.daemon.plugins import constraints

    digests, values = {}, {}
    for index, name in enumerate(NAMES[: case["n"]]):
        values[name] = digest_value(name) if case["returns"][index] else None
        digest = make_digest(name, recorder, values[name])
        before = [t for p, r, t in case["edges"] if p == name and r == BEFORE]
        after = [t for p, r, t in case["edges"] if p == name and r == AFTER]
        required = case["required"][index]
        if before or after or required:
            # an undecorated digest is a plugin without requirements; the constraints are
            # "iterables of names": lists, tuples, sets or one-shot iterators alike
            form = (len(case["edges"]) + index) % 4
            wrap = (list, tuple, iter, lambda names: (name for name in names))[form]
            digest = constraints(before=wrap(before), after=wrap(after),
                                 required=required)(digest)
        digests[name] = digest
    return digests, values


class DistInfo:
    """A real dist-info directory on sys.path, one entry point group per plugin count"""

    def __init__(self):
        self.directory = tempfile.mkdtemp(prefix="verif-c14-")
        info = os.path.join(self.directory, "verifc14plugins-0.dist-info")
        os.mkdir(info)
        with open(os.path.join(info, "entry_points.txt"), "w") as stream:
            for n in range(1, len(NAMES) + 1):
                stream.write("[%s.n%d]\n" % (GROUP, n))
                for name in NAMES[:n]:
                    stream.write("%s = %s:digest_%s\n" % (name, DYN_MODULE, name))
                stream.write("\n")
        with open(os.path.join(info, "METADATA"), "w") as stream:
            stream.write("Metadata-Version: 2.1\nName: verifc14plugins\nVersion: 0\n")
        self.module = types.ModuleType(DYN_MODULE)

    def __enter__(self):
        sys.path.append(self.directory)
        sys.modules[DYN_MODULE] = self.module
        return self

    def __exit__(self, *exc):
        sys.modules.pop(DYN_MODULE, None)
        while self.directory in sys.path:
            sys.path.remove(self.directory)
        shutil.rmtree(self.directory, ignore_errors=True)

    def publish(self, digests):
        for name in NAMES:
            self.module.__dict__.pop("digest_" + name, None)
        for name, digest in digests.items():
            setattr(self.module, "digest_" + name, digest)


def _logging_state():
    root = logging.getLogger()
    return (root.level, root.handlers[:], logging._handlerList[:],
            dict(logging._handlers), logging.root.manager.disable)


def _restore_logging(state):
    root = logging.getLogger()
    root.level, root.handlers[:], logging._handlerList[:] = state[0], state[1], state[2]
    logging._handlers.clear()
    logging._handlers.update(state[3])
    logging.disable(state[4])


def observe(case, distinfo=None):
    """Run the real loader on one case.

    Returns a dict: phase ("plugins": load_section_plugins raised, "config":
    load_configuration raised, "done"), error (exception or None), calls
    [(name, object)], result (returned mapping or None), sections / values (the objects
    that were handed in / that digests return), order (sections of the loaded plugins)."""
    import cobald.daemon.core.config as core_config
    from cobald.daemon.config.mapping import load_configuration

    recorder = Recorder()
    digests, values = build_digests(case, recorder)
    obs = {"phase": "plugins", "error": None, "calls": recorder.calls, "result": None,
           "values": values, "sections": {}, "order": None}
    if case.get("route", "seam") == "distinfo":
        if distinfo is None:
            with DistInfo() as fresh:
                return observe(case, fresh)
        distinfo.publish(digests)
        group = "%s.n%d" % (GROUP, case["n"])
        try:
            plugins = core_config.load_section_plugins(group)
        except Exception as err:  # noqa: B902
            obs["error"] = err
            return obs
    else:
        if not hasattr(core_config, "get_entrypoints"):
            raise SeamError("cobald.daemon.core.config has no name 'get_entrypoints'")
        entry_points = [FakeEntryPoint(name, digests[name]) for name in NAMES[: case["n"]]]
        asked = []

        def fake_get_entrypoints(group, *args, **kwargs):
            asked.append(group)
            return list(entry_points)

        saved = core_config.get_entrypoints
        core_config.get_entrypoints = fake_get_entrypoints
        try:
            plugins = core_config.load_section_plugins(GROUP)
        except Exception as err:  # noqa: B902
            obs["error"] = err
            return obs
        finally:
            core_config.get_entrypoints = saved
        if asked != [GROUP]:
            raise SeamError("load_section_plugins asked for groups %r" % (asked,))
    try:
        obs["order"] = [plugin.section for plugin in plugins]
    except Exception as err:  # noqa: B902
        obs["error"] = err
        return obs
    obs["phase"] = "config"
    config = {}
    # insertion order of the document: logging in the middle, unknown last
    for name in case["sections"]:
        obs["sections"][name] = config[name] = section_content(name)
        if name == NAMES[0] and case["logging"]:
            config["logging"] = {"version": 1}
    if case["logging"] and "logging" not in config:
        config["logging"] = {"version": 1}
    if case["unknown"]:
        odd = isinstance(case["unknown"], (list, tuple))
        config[case["unknown"][1] if odd else UNKNOWN] = {"x": 1}
    state = _logging_state() if case["logging"] else None
    try:
        obs["result"] = load_configuration(config, plugins)
        obs["phase"] = "done"
    except Exception as err:  # noqa: B902
        obs["error"] = err
    finally:
        if state is not None:
            _restore_logging(state)
    return obs


# ---------------------------------------------------------------------------------------
# oracle: the property statement, nothing else


def judge(case, obs):
    """None if the observation is what the property promises, else (key, description)"""
    from cobald.daemon.config.mapping import ConfigurationError

    installed = NAMES[: case["n"]]
    error, calls = obs["error"], obs["calls"]
    if obs["phase"] == "plugins":
        # loading the plugin set itself is no failure the property knows about
        kind = type(error).__name__
        return ("load_section_plugins-raised-%s" % kind,
                "loading the section plugins raised %s: %s" % (kind, error))
    if case["unknown"]:
        if error is None:
            return ("unknown-section:no-error",
                    "a section nobody claims was accepted, result %r" % (obs["result"],))
        if not isinstance(error, ConfigurationError):
            return ("unknown-section:raised-%s" % type(error).__name__,
                    "unknown section: %s instead of ConfigurationError: %s"
                    % (type(error).__name__, error))
        if calls:
            return ("unknown-section:digest-called-before-error",
                    "unknown section rejected, but only after calling %s"
                    % [name for name, _ in calls])
        return None
    missing = [name for index, name in enumerate(installed)
               if case["required"][index] and name not in case["sections"]]
    if missing:
        if error is None:
            return ("required-missing:no-error",
                    "required plugin(s) %s without section, loading succeeded" % missing)
        if not isinstance(error, ConfigurationError):
            return ("required-missing:raised-%s" % type(error).__name__,
                    "required section missing: %s instead of ConfigurationError: %s"
                    % (type(error).__name__, error))
        return None
    if error is not None:
        return ("valid-configuration:raised-%s" % type(error).__name__,
                "valid configuration: %s: %s" % (type(error).__name__, error))
    called = [name for name, _ in calls]
    for name in installed:
        count = called.count(name)
        if name in case["sections"]:
            if count == 0:
                return ("present-section:not-called",
                        "plugin %s has a section but was not called" % name)
            if count > 1:
                return ("present-section:called-%d-times" % count,
                        "plugin %s was called %d times" % (name, count))
            received = calls[called.index(name)][1]
            if received is not obs["sections"][name]:
                return ("present-section:wrong-content",
                        "plugin %s received %r instead of its section %r"
                        % (name, received, obs["sections"][name]))
        elif count:
            return ("missing-section:called",
                    "plugin %s has no section but was called with %r"
                    % (name, calls[called.index(name)][1]))
    stray = [name for name in called if name not in installed]
    if stray:
        return ("unknown-digest-called", "calls of %s" % stray)
    result = obs["result"]
    try:
        kept = [(getattr(key, "section", key), value) for key, value in result.items()]
    except Exception as err:  # noqa: B902
        return ("result:not-a-mapping", "result %r: %s" % (result, err))
    for name in case["sections"]:
        value = obs["values"][name]
        if value is None:
            continue
        found = [v for section, v in kept if section == name]
        if not found:
            return ("result:non-None-dropped",
                    "result %r of plugin %s is not in the returned mapping %r"
                    % (value, name, result))
        if len(found) > 1 or found[0] is not value:
            return ("result:wrong-value",
                    "plugin %s returned %r, the mapping holds %r" % (name, value, found))
    for (earlier, later), relation in sorted(installed_order_pairs(case).items()):
        if earlier in called and later in called:
            if called.index(earlier) > called.index(later):
                return ("order:%s-edge-violated" % relation,
                        "%s must be digested before %s (declared by '%s='), call order %s"
                        % (earlier, later, relation, called))
    return None


def summary(obs):
    """Comparable digest of an observation (for route comparison and outcome classes)"""
    result = obs["result"]
    if result is not None:
        try:
            result = sorted((getattr(k, "section", repr(k)), repr(v))
                            for k, v in result.items())
        except Exception:  # noqa: B902
            result = repr(result)
    error = obs["error"]
    return (obs["phase"], type(error).__name__ if error is not None else None,
            str(error) if error is not None else None,
            [(name, repr(content)) for name, content in obs["calls"]], result,
            obs["order"])


def run_case(case, distinfo=None):
    """((key, description) or None, observation).

    Constraints naming the absent plugin are ignored by the oracle (``judge`` only looks at
    relations between installed plugins), so a case with such constraints is held to
    exactly what the same case without them is held to."""
    obs = observe(case, distinfo)
    verdict = judge(case, obs)
    if verdict is not None and obs["phase"] == "plugins":
        verdict = (classify_plugin_failure(case, obs), verdict[1])
    return verdict, obs


@functools.lru_cache(maxsize=None)
def _loads_without_absent(n, inner_edges, required):
    """Does the plugin set load once the constraints naming the absent plugin are gone?"""
    case = {"n": n, "edges": [list(edge) for edge in inner_edges],
            "required": list(required), "returns": [False] * n, "sections": [],
            "unknown": False, "logging": False, "route": "seam"}
    return observe(case)["phase"] != "plugins"


def classify_plugin_failure(case, obs):
    """Key for 'load_section_plugins raised': is a constraint naming the absent plugin
    to blame (the same plugin set without those constraints loads)?"""
    error = obs["error"]
    kind = type(error).__name__
    absent_edges = [e for e in case["edges"] if e[2] == ABSENT]
    if absent_edges:
        inner = tuple(tuple(e) for e in case["edges"] if e[2] != ABSENT)
        if _loads_without_absent(case["n"], inner, tuple(case["required"])):
            befores = [e for e in absent_edges if e[1] == BEFORE]
            if befores and isinstance(error, KeyError) and error.args == (ABSENT,):
                return "before-constraint-names-absent-plugin:KeyError"
            return "constraint-names-absent-plugin:load_section_plugins-raised-%s" % kind
    return "load_section_plugins-raised-%s" % kind


# ---------------------------------------------------------------------------------------
# enumeration


def edge_assignments(n):
    """Every assignment of relations between the installed plugins:
    (assignment, its edges, whether it is cyclic)"""
    inner_slots, _outer_slots = slots(n)
    names = NAMES[:n]
    for inner in itertools.product(RELATIONS, repeat=len(inner_slots)):
        inner_edges = [[p, r, t] for (p, t), r in zip(inner_slots, inner) if r != NONE]
        pairs = {((p, t) if r == BEFORE else (t, p)) for p, r, t in inner_edges}
        cyclic = not acyclic(pairs, names)
        yield inner, inner_edges, cyclic


def outer_assignments(n, budget=None):
    """Every assignment of relations to the absent name (at most ``budget`` of them)"""
    _, outer_slots = slots(n)
    for outer in itertools.product(RELATIONS, repeat=len(outer_slots)):
        edges = [[p, r, t] for (p, t), r in zip(outer_slots, outer) if r != NONE]
        if budget is not None and len(edges) > budget:
            continue
        yield edges


def mappings(n):
    names = NAMES[:n]
    for present in itertools.product((False, True), repeat=n):
        sections = [name for name, flag in zip(names, present) if flag]
        for unknown in (False, True):
            for has_logging in (False, True):
                yield sections, unknown, has_logging
        if n <= 2:
            # sections nobody claims whose names are falsy or no strings at all (YAML reads
            # "0:", "~:", "'':" as such keys)
            for odd in ODD_UNKNOWN:
                yield sections, ["name", odd], False


def nontrivial(case):
    """A case exercises the property beyond 'nothing to do': an ordering constraint whose
    two plugins both have a section, a rejected configuration, or a constraint naming the
    absent plugin"""
    if case["unknown"] or any(
            req and name not in case["sections"]
            for req, name in zip(case["required"], NAMES)):
        return True
    if any(t == ABSENT for _, _, t in case["edges"]):
        return True
    present = set(case["sections"])
    return any(a in present and b in present for a, b in installed_order_pairs(case))


def case_id(case):
    return (case["n"], tuple(map(tuple, case["edges"])), tuple(case["required"]),
            tuple(case["returns"]), tuple(case["sections"]), case["unknown"],
            case["logging"], case.get("route", "seam"))


def record(acc, case, verdict, obs):
    acc.case(nontrivial_key=case_id(case) if nontrivial(case) else None,
             sample=case if acc.evaluations % 4999 == 17 else None)
    error = obs["error"]
    acc.outcome((obs["phase"], type(error).__name__ if error is not None else None,
                 len(obs["calls"]), len(obs["result"] or ())))
    if verdict is not None:
        acc.violation(verdict[0], verdict[1], {"case": case})


def shard_edges(args):
    """All flags x results x mappings x absent-edge assignments for one assignment of
    relations between the installed plugins"""
    _, n, inner_edges, max_edges = args
    acc = Acc()
    budget = None if max_edges is None else max_edges - len(inner_edges)
    for outer_edges in outer_assignments(n, budget):
        edges = inner_edges + outer_edges
        for required in itertools.product((False, True), repeat=n):
            for returns in itertools.product((False, True), repeat=n):
                for sections, unknown, has_logging in mappings(n):
                    case = {"n": n, "edges": edges, "required": list(required),
                            "returns": list(returns), "sections": sections,
                            "unknown": unknown, "logging": has_logging, "route": "seam"}
                    verdict, obs = run_case(case)
                    record(acc, case, verdict, obs)
    return acc


def binding_cases(tier_quick):
    """The slice of cases that also goes through a real dist-info directory"""
    for n in (0, 1, 2, 3):
        for _inner, inner_edges, cyclic in edge_assignments(n):
            if cyclic:
                continue
            if n == 3 and len(inner_edges) > (1 if tier_quick else 2):
                continue
            for outer_edges in outer_assignments(n, 1):
                if n >= 2 and len(inner_edges) + len(outer_edges) > 2:
                    continue
                for flags in itertools.product((False, True), repeat=n):
                    # required flags and results tied together: keeps the slice small
                    required, returns = list(flags), [not f for f in flags]
                    for sections, unknown, has_logging in mappings(n):
                        if n == 3 and (has_logging or (unknown and sections)):
                            continue
                        yield {"n": n, "edges": inner_edges + outer_edges,
                               "required": required, "returns": returns,
                               "sections": sections, "unknown": unknown,
                               "logging": has_logging, "route": "distinfo"}


def shard_binding(args):
    _, tier_quick, part, parts = args
    acc = Acc()
    with DistInfo() as distinfo:
        for index, case in enumerate(binding_cases(tier_quick)):
            if index % parts != part:
                continue
            verdict, obs = run_case(case, distinfo)
            twin = {**case, "route": "seam"}
            twin_verdict, twin_obs = run_case(twin)
            if summary(obs) != summary(twin_obs) or (
                    (verdict and verdict[0]) != (twin_verdict and twin_verdict[0])):
                raise SeamError(
                    "fake entry points and the real dist-info route disagree on %r:\n"
                    "dist-info: %r\nseam:      %r"
                    % (case, summary(obs), summary(twin_obs)))
            record(acc, case, verdict, obs)
            acc.count("bound-through-dist-info")
    return acc


# ---------------------------------------------------------------------------------------
# histories: the same plugin callables loaded several times with different sets installed


def run_loads_case(case):
    """case: relation ("before"|"after"), installs: list of lists of installed plugin names
    in entry point order; the digests (and their constraints) are created once"""
    import cobald.daemon.core.config as core_config
    from cobald.daemon.config.mapping import load_configuration
    from cobald.daemon.plugins import constraints

    recorder = Recorder()
    # which of the three names plays the early / late / unrelated plugin: without the
    # constraint the order of two plugins follows from their names (set order), so every
    # assignment is tried
    early, late, other = case.get("names", ["pa", "pb", "pc"])
    first = make_digest(early, recorder, None)
    second = make_digest(late, recorder, None)
    if case["relation"] == "before":
        first = constraints(before=[late])(first)
    else:
        second = constraints(after=[early])(second)
    digests = {early: first, late: second, other: make_digest(other, recorder, None)}
    rename = {"pa": early, "pb": late, "pc": other}
    case = dict(case, installs=[[rename[name] for name in names]
                                for names in case["installs"]])
    saved = core_config.get_entrypoints
    try:
        for round_index, installed in enumerate(case["installs"]):
            core_config.get_entrypoints = lambda group, names=installed: [
                FakeEntryPoint(name, digests[name]) for name in names]
            del recorder.calls[:]
            try:
                plugins = core_config.load_section_plugins(GROUP)
                load_configuration({name: section_content(name) for name in installed}, plugins)
            except Exception as err:  # noqa: B902
                return ("loads:raised-%s" % type(err).__name__,
                        "load %d of %r (%s %s %s) raised %s: %s" % (
                            round_index, case["installs"], early, case["relation"], late,
                            type(err).__name__, err))
            order = [name for name, _content in recorder.calls]
            if sorted(order) != sorted(installed):
                return ("loads:calls", "load %d of %r called %r" % (
                    round_index, case["installs"], order))
            if early in order and late in order and order.index(early) > order.index(late):
                return ("loads:constraint-lost-after-earlier-load",
                        "the digests were loaded with %r installed one after the other; in "
                        "load %d the call order is %r although %s must precede %s (%s)"
                        % (case["installs"], round_index, order, early, late,
                           case["relation"]))
    finally:
        core_config.get_entrypoints = saved
    return None


def loads_cases():
    for relation, names in itertools.product(
            ("before", "after"), itertools.permutations(["pa", "pb", "pc"])):
        for installs in ([["pa"], ["pb", "pa"]], [["pb"], ["pb", "pa"]],
                         [["pb", "pa"], ["pb", "pa"]], [["pc"], ["pb", "pc", "pa"]],
                         [["pb", "pa"], ["pa"], ["pb"], ["pb", "pa"]]):
            yield {"loads": True, "relation": relation, "installs": installs,
                   "names": list(names)}


def run_shared_case(case):
    """Constraints live on the digest callables, so they outlive a load and are shared by
    every plugin made from one callable. case["shape"]:
      "swap": load 1 installs A1 (before X) and X; load 2 installs another callable under
              A's name that is *after* X, and the same X: X must now come first
      "twice": one callable is installed under two names x and y, a third plugin is before x
              and after y: the order must be y, third, x
    The deciding digest X is decorated (constraints naming the absent plugin) or plain."""
    import cobald.daemon.core.config as core_config
    from cobald.daemon.config.mapping import load_configuration
    from cobald.daemon.plugins import constraints

    calls = []

    def recording(tag):
        def digest(content):
            calls.append((tag, content))

        digest.__name__ = digest.__qualname__ = "digest_" + tag
        return digest

    a_name, x_name, y_name = case["names"]
    target = recording("X")
    if case["decorated"]:
        target = constraints(after=[ABSENT], before=[ABSENT])(target)
    if case["shape"] == "swap":
        rounds = [
            ([(a_name, constraints(before=[x_name])(recording("A1"))), (x_name, target)],
             [a_name, x_name]),
            ([(a_name, constraints(after=[x_name])(recording("A2"))), (x_name, target)],
             [x_name, a_name]),
            ([(a_name, constraints(before=[x_name])(recording("A3"))), (x_name, target)],
             [a_name, x_name]),
        ]
    else:
        third = constraints(before=[x_name], after=[y_name])(recording("T"))
        rounds = [([(x_name, target), (a_name, third), (y_name, target)],
                   [y_name, a_name, x_name])] * 2
    if case.get("reversed"):
        rounds = [(list(reversed(installed)), want) for installed, want in rounds]
    saved = core_config.get_entrypoints
    try:
        for index, (installed, want) in enumerate(rounds):
            core_config.get_entrypoints = lambda group, installed=installed: [
                FakeEntryPoint(name, obj) for name, obj in installed]
            del calls[:]
            contents = {name: {"content-of": name} for name, _obj in installed}
            try:
                plugins = core_config.load_section_plugins(GROUP)
                load_configuration(dict(contents), plugins)
            except Exception as err:  # noqa: B902
                return ("shared:%s:raised-%s" % (case["shape"], type(err).__name__),
                        "load %d of shape %s (names %r) raised %s: %s" % (
                            index, case["shape"], case["names"], type(err).__name__, err))
            order = [content["content-of"] for _tag, content in calls]
            if order != want:
                return ("shared:%s:order" % case["shape"],
                        "load %d of shape %s: sections digested in order %r, the constraints "
                        "of this load demand %r" % (index, case["shape"], order, want))
    finally:
        core_config.get_entrypoints = saved
    return None


def shared_cases():
    for shape, decorated, backwards, names in itertools.product(
            ("swap", "twice"), (True, False), (False, True),
            itertools.permutations(["pa", "pb", "pc"])):
        yield {"shared": True, "shape": shape, "decorated": decorated,
               "reversed": backwards, "names": list(names)}


def shard_loads(args):
    acc = Acc()
    for case in shared_cases():
        problem = run_shared_case(case)
        acc.case(nontrivial_key=repr(case), sample=case)
        acc.outcome(("shared", case["shape"], problem is None))
        if problem:
            acc.violation(problem[0], problem[1], {"case": case})
    for case in loads_cases():
        problem = run_loads_case(case)
        acc.case(nontrivial_key=repr(case), sample=case)
        acc.outcome(("loads", problem is None))
        if problem:
            acc.violation(problem[0], problem[1], {"case": case})
    return acc


def shard(args):
    return {"edges": shard_edges, "binding": shard_binding, "loads": shard_loads}[args[0]](args)


def run(ctx):
    skipped_cyclic = 0
    parts = 8 if ctx.quick else 16
    # smallest plugin sets first, so that the recorded counterexamples are minimal ones
    for sizes in ((0, 1), (2,), (3,)):
        shards = []
        for n in sizes:
            max_edges = 2 if (ctx.quick and n == 3) else None
            for _inner, inner_edges, cyclic in edge_assignments(n):
                if max_edges is not None and len(inner_edges) > max_edges:
                    continue
                if cyclic:
                    skipped_cyclic += 1
                    continue
                shards.append(("edges", n, inner_edges, max_edges))
        if 3 in sizes:
            shards += [("binding", ctx.quick, part, parts) for part in range(parts)]
        ctx.pmap(shard, shards)
    ctx.acc.count("edge-assignments-skipped-cyclic", skipped_cyclic)
    ctx.pmap(shard, [("loads",)])
    ctx.meta.update(
        rule="plugin sets %s[:n], n=0..3, plus the name %r that is never installed; every "
             "assignment of {none, before, after} to every (plugin, other plugin) and "
             "(plugin, absent) pair (n=3: %s), those acyclic between the installed plugins; "
             "x every required vector x every digest-result vector (None / value) x every "
             "subset of the plugins' sections x unknown section yes/no x logging yes/no; "
             "a slice of them again through a real *.dist-info directory (must agree with "
             "the fake entry points). A case is non-trivial when an ordering constraint "
             "has both its plugins' sections present (plus load histories: the same "
             "callables loaded with changing sets, a name whose constraint is reversed "
             "between loads, one callable installed under two names), or the configuration must be "
             "rejected, or a constraint names the absent plugin; distinct by the full case"
             % (list(NAMES), ABSENT,
                "at most 2 relations in total" if ctx.quick else "all 3^9 assignments"),
        exhaustive=True,
        bounds={"max_plugins": 3, "absent_names": 1,
                "max_relations_with_3_plugins": 2 if ctx.quick else 9,
                "unknown_sections": 1},
    )
    ctx.assumptions += [
        "'P before=Q' / 'P after=Q' mean: P is digested before / after Q (the reading of "
        "SectionPlugin.load's documentation; the docstring of plugins.constraints words it "
        "the other way round)",
        "cyclic constraint graphs between installed plugins are outside the property and "
        "skipped (counted)",
        "when a required section is missing only the ConfigurationError is demanded (the "
        "statement does not say that no digest ran before it); a None digest result may or "
        "may not appear in the returned mapping",
        "entry points are faked below SectionPlugin.load (name, load(), extras=None); bound "
        "by running a slice through entrypoints.get_group_all on a real dist-info directory",
    ]


def replay(data):
    if data["case"].get("shared"):
        problem = run_shared_case(data["case"])
        return None if problem is None else "%s: %s" % problem
    if data["case"].get("loads"):
        problem = run_loads_case(data["case"])
        return None if problem is None else "%s: %s" % problem
    verdict, _obs = run_case(data["case"])
    return None if verdict is None else "%s: %s" % verdict
