"""
C17 - monitoring output is well-formed and lossless.

Bounded-exhaustive enumeration (smallscope): every string up to a length bound over an
alphabet holding every character special to the line protocol, at every position of a
record (and at pairs of positions), times tag configurations, value types, resolutions and
record times; each formatted by the real LineProtocolFormatter and decoded again by an
independent reference parser of the InfluxDB line protocol.  JSON: all overlapping
defaults / payload pairs, decoded by json.loads.
"""
import itertools
import json
import logging
import math
from fractions import Fraction

from vlib.core import Acc

SIGMA = ["a", " ", ",", "=", '"', "'", "\\", "é"]
IDENT_POSITIONS = ("measurement", "tag_key", "tag_value", "field_key")
POSITIONS = IDENT_POSITIONS + ("field_string",)


# ---------------------------------------------------------------------------------------
# reference parser (written from the InfluxDB 1.x line-protocol reference)
#
#   line := measurement [ "," tag_key "=" tag_value ]* " " field_key "=" field_value
#           [ "," field_key "=" field_value ]* [ " " timestamp ] "\n"
#
# * In the measurement and the tag section "," "=" " " are separators unless immediately
#   preceded by a backslash; quotes are ordinary characters there.
# * measurement un-escapes "\," "\ "; tag keys, tag values, field keys un-escape
#   "\," "\=" "\ ".
# * A field value that starts with '"' is a string: inside it, a backslash followed by
#   '"' or a backslash is consumed pairwise; the first '"' not consumed that way ends it.
# * Other field values: t, T, true, True, TRUE / f, F, false, False, FALSE are booleans,
#   a trailing "i" marks an integer, everything else must be a float literal.
# * The timestamp is an integer (nanoseconds).


class ParseError(Exception):
    pass


def _scan_ident(text, pos, stops):
    """Scan up to the first separator of ``stops`` not preceded by a backslash"""
    start = pos
    while pos < len(text):
        char = text[pos]
        if char in stops and not (pos > start and text[pos - 1] == "\\"):
            break
        pos += 1
    return text[start:pos], pos


def _unescape(raw, specials):
    for special in specials:
        raw = raw.replace("\\" + special, special)
    return raw


def _parse_value(text, pos):
    if pos < len(text) and text[pos] == '"':
        pos += 1
        out = []
        while True:
            if pos >= len(text):
                raise ParseError("unterminated string field value")
            char = text[pos]
            if char == "\\" and pos + 1 < len(text) and text[pos + 1] in '"\\':
                out.append(text[pos + 1])
                pos += 2
            elif char == '"':
                return ("string", "".join(out)), pos + 1
            else:
                out.append(char)
                pos += 1
    start = pos
    while pos < len(text) and text[pos] not in ", ":
        pos += 1
    raw = text[start:pos]
    if raw in ("t", "T", "true", "True", "TRUE"):
        return ("boolean", True), pos
    if raw in ("f", "F", "false", "False", "FALSE"):
        return ("boolean", False), pos
    try:
        if raw.endswith("i"):
            return ("number", int(raw[:-1])), pos
        if not raw or raw.strip() != raw or "_" in raw or raw.lower() in (
            "inf", "-inf", "nan", "infinity", "-infinity",
        ):
            raise ValueError(raw)
        return ("number", float(raw)), pos
    except ValueError:
        raise ParseError("invalid field value %r" % raw) from None


def parse_line(line):
    """Decode one line: (measurement, tags, fields{key: (type, value)}, timestamp)"""
    if not line.endswith("\n"):
        raise ParseError("not newline terminated")
    text = line[:-1]
    if "\n" in text or "\r" in text:
        raise ParseError("more than one line")
    raw, pos = _scan_ident(text, 0, ", ")
    if not raw:
        raise ParseError("empty measurement")
    measurement = _unescape(raw, ", ")
    tags = {}
    while pos < len(text) and text[pos] == ",":
        raw_key, pos = _scan_ident(text, pos + 1, ",= ")
        if pos >= len(text) or text[pos] != "=":
            raise ParseError("tag without '='")
        raw_value, pos = _scan_ident(text, pos + 1, ",= ")
        if pos < len(text) and text[pos] == "=":
            raise ParseError("unescaped '=' in tag value")
        key, value = _unescape(raw_key, ",= "), _unescape(raw_value, ",= ")
        if not key or not value:
            raise ParseError("empty tag key or value")
        if key in tags:
            raise ParseError("duplicate tag key")
        tags[key] = value
    if pos >= len(text) or text[pos] != " ":
        raise ParseError("missing field section")
    pos += 1
    fields = {}
    while True:
        raw_key, pos = _scan_ident(text, pos, ",= ")
        if pos >= len(text) or text[pos] != "=":
            raise ParseError("field without '='")
        key = _unescape(raw_key, ",= ")
        if not key:
            raise ParseError("empty field key")
        value, pos = _parse_value(text, pos + 1)
        if key in fields:
            raise ParseError("duplicate field key")
        fields[key] = value
        if pos < len(text) and text[pos] == ",":
            pos += 1
            continue
        break
    timestamp = None
    if pos < len(text):
        if text[pos] != " ":
            raise ParseError("garbage after field value: %r" % text[pos:])
        raw = text[pos + 1:]
        if not raw or not (raw.isdigit() or (raw[0] == "-" and raw[1:].isdigit())):
            raise ParseError("invalid timestamp %r" % raw)
        timestamp = int(raw)
    return measurement, tags, fields, timestamp


# ---------------------------------------------------------------------------------------
# domain: what the protocol can express (see DESIGN.md section 4, C17)


def expressible(position, text):
    if position == "field_string":
        return True
    if not text or text.endswith("\\"):
        return False
    for special in (", " if position == "measurement" else ",= "):
        if "\\" + special in text:
            return False
    if position == "measurement" and (text.startswith("#") or "%" in text):
        return False
    if position == "field_key" and '"' in text:
        return False
    return True


def value_kind(value):
    if isinstance(value, str):
        return ("string", value)
    if isinstance(value, bool):
        return ("boolean", value)
    return ("number", value)


def same_value(got, want):
    """equal, and for a zero also of the same sign: -0.0 and 0.0 are different reports"""
    import math
    if got != want:
        return False
    if isinstance(want, (int, float)) and not isinstance(want, bool) and want == 0:
        return math.copysign(1, got) == math.copysign(1, want)
    return True


def same_fields(got, want):
    return set(got) == set(want) and all(
        got[key][0] == want[key][0] and same_value(got[key][1], want[key][1]) for key in want)


def tag_text(value):
    return value if isinstance(value, str) else str(value)


# ---------------------------------------------------------------------------------------
# one case


def make_record(message, payload, created):
    record = logging.LogRecord("verif.c17", logging.CRITICAL, "x.py", 1, message,
                               (payload,), None)
    if created is not None:
        record.created = created
        record.msecs = (created - int(created)) * 1000.0
        record.relativeCreated = 0.0
    return record


def expected_timestamp(created, resolution):
    if resolution is None:
        return None
    return int(math.floor(Fraction(created) / Fraction(resolution))) * resolution * 10**9


def run_line_case(case):
    """case: dict(measurement, tags_config, record_tags, fields, resolution, created)

    Returns None when the output decodes to the record, else a description."""
    from cobald.monitor.format_line import LineProtocolFormatter

    tags_config = case["tags_config"]
    if isinstance(tags_config, list):
        # "if they are an iterable": any iterable of names, also one that can be read once
        names = list(tags_config)
        tags_config = {
            "set": set, "list": list, "tuple": tuple, "iter": iter,
            "generator": lambda items: (item for item in items),
            "keys": lambda items: dict.fromkeys(items).keys(),
        }[case.get("tags_form", "set")](names)
    record_tags, fields = case["record_tags"], case["fields"]
    payload = {**fields, **record_tags}
    form = case.get("payload_form", "dict")
    if form != "dict":
        # the data of a record is a mapping, not necessarily a plain dict
        import collections
        import types

        class Missing(dict):
            def __missing__(self, key):
                return 0

        payload = {
            "ordered": collections.OrderedDict,
            "defaultdict": lambda data: collections.defaultdict(lambda: "dflt", data),
            "missing-hook": Missing, "proxy": types.MappingProxyType,
            "chainmap": lambda data: collections.ChainMap({}, data),
        }[form](payload)
    try:
        formatter = LineProtocolFormatter(tags=tags_config, resolution=case["resolution"])
        output = formatter.format(make_record(case["measurement"], payload, case["created"]))
    except Exception as err:  # noqa: B902
        return "formatting raised %s: %s" % (type(err).__name__, err)
    if not isinstance(output, str):
        return "output is %r, not text" % type(output)
    defaults = tags_config if isinstance(tags_config, dict) else {}
    want_tags = {k: tag_text(v) for k, v in {**defaults, **record_tags}.items()}
    want_fields = {k: value_kind(v) for k, v in fields.items()}
    want_time = expected_timestamp(case["created"], case["resolution"])
    try:
        measurement, tags, got_fields, timestamp = parse_line(output)
    except ParseError as err:
        return "output %r is not line protocol: %s" % (output, err)
    if measurement != case["measurement"]:
        return "output %r: measurement decodes to %r" % (output, measurement)
    if tags != want_tags:
        return "output %r: tags decode to %r, expected %r" % (output, tags, want_tags)
    if set(got_fields) != set(want_fields):
        return "output %r: fields decode to %r, expected %r" % (
            output, got_fields, want_fields)
    for key, (kind, value) in want_fields.items():
        got_kind, got_value = got_fields[key]
        if got_kind != kind or not same_value(got_value, value) or (
            kind == "boolean" and got_value is not value
        ):
            return "output %r: field %r decodes to %s %r, expected %s %r" % (
                output, key, got_kind, got_value, kind, value)
    if timestamp != want_time:
        return "output %r: timestamp %r, expected %r" % (output, timestamp, want_time)
    return None


def classify_line(case, problem):
    """Key of the minimal class of a failing line-protocol case"""
    if problem.startswith("formatting raised AssertionError") and any(
        not isinstance(v, str)
        for v in list(case["record_tags"].values())
        + (list(case["tags_config"].values())
           if isinstance(case["tags_config"], dict) else [])
    ):
        return "line:non-string-tag-value-raises"
    field_text = "".join(k for k in case["fields"]) + "".join(
        v for v in case["fields"].values() if isinstance(v, str))
    if "'" in field_text:
        return "line:single-quote-in-field-section"
    specials = sorted(
        {c for text in [case["measurement"], *case["record_tags"],
                        *[v for v in case["record_tags"].values() if isinstance(v, str)],
                        field_text]
         for c in text if c in SIGMA[1:]})
    kind = problem.split(":")[0].split(" raised ")[-1] if "raised" in problem else (
        "timestamp" if "timestamp" in problem else "decode")
    return "line:%s:chars=%s:res=%s" % (kind, "".join(specials), case["resolution"])


def base_case():
    return {
        "measurement": "m",
        "tags_config": ["t"],
        "record_tags": {"t": "v"},
        "fields": {"f": "x"},
        "resolution": None,
        "created": None,
    }


def place(case, position, text):
    """A copy of ``case`` with ``text`` at ``position``; None if keys collide"""
    case = {**case, "record_tags": dict(case["record_tags"]),
            "fields": dict(case["fields"])}
    if position == "measurement":
        case["measurement"] = text
    elif position == "tag_key":
        (old, value), = case["record_tags"].items()
        case["record_tags"] = {text: value}
        case["tags_config"] = [text]
    elif position == "tag_value":
        (key, old), = case["record_tags"].items()
        case["record_tags"] = {key: text}
    elif position == "field_key":
        (old, value), = case["fields"].items()
        case["fields"] = {text: value}
    elif position == "field_string":
        (key, old), = case["fields"].items()
        case["fields"] = {key: text}
    if set(case["record_tags"]) & set(case["fields"]):
        return None
    return case


def strings(max_len):
    for length in range(0, max_len + 1):
        for chars in itertools.product(SIGMA, repeat=length):
            yield "".join(chars)


# ---------------------------------------------------------------------------------------
# shards


def check_line_case(acc, case, trivial=False):
    problem = run_line_case(case)
    special = any(c in SIGMA[1:] for c in json.dumps(case, ensure_ascii=False))
    acc.case(
        nontrivial_key=None if trivial or not special else json.dumps(case, sort_keys=True),
        sample=case if special and acc.evaluations % 997 == 0 else None,
    )
    acc.outcome(problem is None)
    if problem is not None:
        acc.violation(classify_line(case, problem), problem, {"kind": "line", "case": case})


def shard_single(args):
    position, max_len, first = args
    acc = Acc()
    for text in ([""] if not first else (first + rest for rest in strings(max_len - 1))):
        if not expressible(position, text):
            acc.count("skipped-inexpressible")
            continue
        case = place(base_case(), position, text)
        if case is not None:
            check_line_case(acc, case)
    return acc


def shard_pair(args):
    pos_a, pos_b, first, max_len = args
    acc = Acc()
    if not expressible(pos_a, first):
        return acc
    for second in strings(max_len):
        if not expressible(pos_b, second):
            continue
        case = place(base_case(), pos_a, first)
        case = case and place(case, pos_b, second)
        if case is not None:
            check_line_case(acc, case)
    return acc


TAG_DEFAULT_VALUES = ["d", "d e", 49, 8.5, True]
RECORD_TAG_VALUES = [None, "r", "r,s", 7, 0.25]
FIELD_VALUES = [0, 1, -3, 10**20, 0.5, -2.25, 1e100, 1e-7, True, False, "s", "", 1.0, 0.0, -0.0]
RESOLUTIONS = [None, 1, 10, 60]
CREATED = [0.0, 0.5, 9.999, 10.0, 59.5, 60.0, 61.25, 1600000000.123456, 1759400000.75,
           4500000000.0]


TAG_CONFIGS = (
    [None, [], ["t"], ["t", "u"]]
    + [{"t": v} for v in TAG_DEFAULT_VALUES]
    + [{"t": v, "u": w} for v in TAG_DEFAULT_VALUES[:3] for w in TAG_DEFAULT_VALUES[2:]]
)


def shard_config(args):
    """Tag configurations x record overrides x field values x resolutions x times"""
    (config,) = args
    acc = Acc()
    if isinstance(config, list) and config:
        # the whitelist given as other iterables, the record data as other mappings
        for tags_form, payload_form in itertools.product(
                ["set", "list", "tuple", "iter", "generator", "keys"],
                ["dict", "ordered", "defaultdict", "missing-hook", "proxy", "chainmap"]):
            for present in itertools.product((False, True), repeat=len(config)):
                record_tags = {k: "r" for k, flag in zip(config, present) if flag}
                for resolution, created in ((None, None), (10, 61.25)):
                    case = {"measurement": "m", "tags_config": config,
                            "record_tags": record_tags, "fields": {"f": 1, "g": "s"},
                            "resolution": resolution, "created": created,
                            "tags_form": tags_form, "payload_form": payload_form}
                    check_line_case(acc, case)
    for config in [config]:
        names = list(config) if config else []
        for record_values in itertools.product(RECORD_TAG_VALUES, repeat=len(names)):
            record_tags = {k: v for k, v in zip(names, record_values) if v is not None}
            for value_a, value_b in itertools.product(FIELD_VALUES, [None] + FIELD_VALUES[:4]):
                fields = {"f": value_a}
                if value_b is not None:
                    fields["g h"] = value_b
                for resolution in RESOLUTIONS:
                    for created in (CREATED if resolution is not None else [None]):
                        case = {"measurement": "m e", "tags_config": config,
                                "record_tags": record_tags, "fields": fields,
                                "resolution": resolution, "created": created}
                        check_line_case(acc, case)
    return acc


# -- histories: several records through one formatter instance ------------------------------


def run_history(case):
    """case: dict(kind line|json, config, records [payload dicts]); every record must decode
    exactly as it does through a fresh formatter, i.e. to its own content"""
    from cobald.monitor.format_json import JsonFormatter
    from cobald.monitor.format_line import LineProtocolFormatter

    config = case["config"]
    if case["kind"] == "line":
        if isinstance(config, list):
            config = set(config)
        formatter = LineProtocolFormatter(tags=config, resolution=None)
    else:
        formatter = JsonFormatter(fmt=config, datefmt="")
    original = json.dumps(case["config"], sort_keys=True)
    for index, payload in enumerate(case["records"]):
        record = make_record("m", dict(payload), 1600000000.0)
        try:
            output = formatter.format(record)
        except Exception as err:  # noqa: B902
            return "record %d: formatting raised %s: %s" % (index, type(err).__name__, err)
        if case["kind"] == "line":
            defaults = case["config"] if isinstance(case["config"], dict) else {}
            names = set(case["config"] or ())
            want_tags = {k: tag_text(v) for k, v in {
                **defaults, **{k: v for k, v in payload.items() if k in names}}.items()}
            want_fields = {k: value_kind(v) for k, v in payload.items() if k not in names}
            try:
                _m, tags, fields, _t = parse_line(output)
            except ParseError as err:
                return "record %d: output %r is not line protocol: %s" % (index, output, err)
            if tags != want_tags or not same_fields(fields, want_fields):
                return "record %d of %r: output %r decodes to tags %r fields %r, expected %r %r" % (
                    index, case["records"], output, tags, fields, want_tags, want_fields)
        else:
            want = dict(case["config"] or {})
            want["message"] = "m"
            want.update(payload)
            if json.loads(output) != want:
                return "record %d of %r: output %r, expected %r" % (
                    index, case["records"], output, want)
        if json.dumps(case["config"], sort_keys=True) != original:
            return "record %d: the formatter modified its configuration to %r" % (
                index, case["config"])
    return None


HISTORY_PAYLOADS = [{"f": True}, {"f": 1.0}, {"f": False, "g": 0.0}, {"f": -0.0, "g": 0}, {"g": -0.0}, {"f": 1}, {"t": "r", "f": 1}, {"t": "s", "u": "w", "f": 2}, {"u": "w", "f": 1},
                    {"f": 1, "g": "x"}]


def run_two_formatters(case):
    """One record formatted by two formatters one after the other (two handlers of one
    logger): each output must be what that formatter gives for a fresh copy of the record"""
    from cobald.monitor.format_json import JsonFormatter
    from cobald.monitor.format_line import LineProtocolFormatter

    def make(spec):
        if spec[0] == "line":
            return LineProtocolFormatter(tags=set(spec[1]) if spec[1] is not None else None,
                                         resolution=spec[2])
        if spec[0] == "json":
            return JsonFormatter(fmt=spec[1], datefmt=spec[2])
        return logging.Formatter("%(asctime)s %(message)s", datefmt=spec[1])

    payload = case["payload"]
    shared = make_record("m", dict(payload), 1600000000.25)
    outputs = []
    for spec in case["formatters"]:
        try:
            shared_out = make(spec).format(shared)
            fresh_out = make(spec).format(make_record("m", dict(payload), 1600000000.25))
        except Exception as err:  # noqa: B902
            return "formatting raised %s: %s" % (type(err).__name__, err)
        outputs.append((shared_out, fresh_out))
    for index, (shared_out, fresh_out) in enumerate(outputs):
        if shared_out != fresh_out:
            return ("formatter %d of %r gives %r for a record another formatter has seen, %r "
                    "for a fresh one" % (index, case["formatters"], shared_out, fresh_out))
    return None


TWO_FORMATTERS = [
    ("line", ["t"], 10), ("line", None, None), ("json", None, None), ("json", {"d": 1}, "%Y"),
    ("json", None, ""), ("json", None, "%H:%M"), ("plain", "%d.%m.%Y"),
]


def shard_two_formatters(args):
    acc = Acc()
    for first, second in itertools.permutations(TWO_FORMATTERS, 2):
        for payload in ({"f": 1}, {"t": "r", "f": 2.5}, {"time": 12.5, "f": 1}):
            case = {"kind": "two-formatters", "formatters": [list(first), list(second)],
                    "payload": payload}
            problem = run_two_formatters(case)
            acc.case(nontrivial_key=json.dumps(case, sort_keys=True),
                     sample=case if acc.evaluations % 37 == 0 else None)
            acc.outcome(problem is None)
            if problem is not None:
                acc.violation("history:%s-after-%s:record-state-leaks" % (second[0], first[0]),
                              problem, case)
    return acc


def shard_history(args):
    (kind,) = args
    acc = Acc()
    configs = ([None, ["t"], ["t", "u"], {"t": "d"}, {"t": "d", "u": 7}] if kind == "line"
               else [None, {"t": "d"}, {"t": "d", "f": 0}])
    for config in configs:
        for length in (2, 3):
            for records in itertools.product(HISTORY_PAYLOADS, repeat=length):
                if kind == "line" and config is None and length == 3:
                    continue
                case = {"kind": kind, "config": config, "records": list(records)}
                problem = run_history(case)
                acc.case(nontrivial_key=json.dumps(case, sort_keys=True),
                         sample=case if acc.evaluations % 211 == 0 else None)
                acc.outcome(problem is None)
                if problem is not None:
                    acc.violation("history:%s:state-leaks-between-records" % kind, problem,
                                  {"kind": "history", "case": case})
    return acc


# -- JSON ------------------------------------------------------------------------------

JSON_KEYS = ["a", "b", "message", "time"]
JSON_VALUES = [1, "x y", [1, {"n": None}], {"k": 'q"\n'}]
DATEFMTS = [None, "", "%Y-%m-%d"]


def run_json_case(case):
    from cobald.monitor.format_json import JsonFormatter

    defaults, payload, datefmt = case["defaults"], case["payload"], case["datefmt"]
    record = make_record(case["message"], payload, case["created"])
    try:
        output = JsonFormatter(fmt=defaults, datefmt=datefmt).format(record)
    except Exception as err:  # noqa: B902
        return "formatting raised %s: %s" % (type(err).__name__, err)
    if not isinstance(output, str) or "\n" in output or "\r" in output:
        return "output %r is not a single line" % (output,)
    try:
        decoded = json.loads(output)
    except ValueError as err:
        return "output %r is not JSON: %s" % (output, err)
    want = dict(defaults or {})
    if datefmt is None or datefmt:
        want["time"] = logging.Formatter(datefmt=datefmt).formatTime(record, datefmt)
    want["message"] = case["message"]
    want.update(payload)
    if decoded != want:
        return "output %r decodes to %r, expected %r" % (output, decoded, want)
    return None


def shard_json(args):
    (datefmt,) = args
    acc = Acc()
    dicts = [{}]
    for size in (1, 2):
        for keys in itertools.combinations(JSON_KEYS, size):
            for values in itertools.product(JSON_VALUES[:3], repeat=size):
                dicts.append(dict(zip(keys, values)))
    for defaults in [None] + dicts:
        for payload in dicts:
            case = {"defaults": defaults, "payload": payload, "datefmt": datefmt,
                    "message": "mess age", "created": 1600000000.5}
            problem = run_json_case(case)
            overlap = bool(defaults) and bool(
                (set(defaults) | {"message", "time"}) & set(payload)
                or set(defaults) & {"message", "time"})
            acc.case(nontrivial_key=json.dumps(case, sort_keys=True) if overlap else None,
                     sample=case if overlap and acc.evaluations % 1499 == 0 else None)
            acc.outcome(problem is None)
            if problem is not None:
                acc.violation("json:datefmt=%r:%s" % (datefmt, problem.split(" ")[0]),
                              problem, {"kind": "json", "case": case})
    return acc


def shard(args):
    kind, rest = args[0], args[1:]
    return {"single": shard_single, "pair": shard_pair, "config": shard_config,
            "json": shard_json, "history": shard_history,
            "two-formatters": shard_two_formatters}[kind](rest)


# ---------------------------------------------------------------------------------------


def run(ctx):
    single_len = 3 if ctx.quick else 5
    pair_len = 1 if ctx.quick else 3
    shards = [("single", position, single_len, first) for position in POSITIONS
              for first in [""] + SIGMA]
    for pos_a, pos_b in itertools.combinations(POSITIONS, 2):
        for first in strings(pair_len):
            shards.append(("pair", pos_a, pos_b, first, pair_len))
    shards += [("config", config) for config in TAG_CONFIGS]
    shards += [("json", datefmt) for datefmt in DATEFMTS]
    shards += [("history", "line"), ("history", "json"), ("two-formatters",)]
    ctx.pmap(shard, shards)
    ctx.meta.update(
        rule="every string of length <= %d over %r at each of %r, every pair of strings of "
             "length <= %d at every pair of positions (inexpressible inputs skipped and "
             "counted), tag configurations x overrides x field values x resolutions x "
             "record times, JSON defaults x payload x datefmt, sequences of 2-3 records through one "
             "formatter instance; a case is non-trivial when "
             "it contains a special character (line) / overlapping keys (JSON); distinct by "
             "the full case" % (single_len, "".join(SIGMA), list(POSITIONS), pair_len),
        exhaustive=True,
        bounds={"single_string_len": single_len, "pair_string_len": pair_len,
                "alphabet": SIGMA, "resolutions": RESOLUTIONS, "created": CREATED},
    )
    ctx.assumptions += [
        "reference parser follows the InfluxDB 1.x line-protocol reference; int vs float "
        "field types are not distinguished (DESIGN.md C17 domain)",
        "identifiers with a backslash directly before ',', '=' or ' ', with a trailing "
        "backslash, empty identifiers, '\"' in field keys are outside the protocol and skipped",
    ]


def replay(data):
    if data["kind"] == "two-formatters":
        return run_two_formatters(data)
    if data["kind"] == "history":
        return run_history(data["case"])
    if data["kind"] == "json":
        return run_json_case(data["case"])
    return run_line_case(data["case"])
