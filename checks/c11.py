"""
C11 - coroutine payloads of one flavour never run in parallel.

Engine: cosched.  Mixes of queued / adopted / service / executed coroutine payloads of one
flavour, each repeatedly entering a synchronous section that contains a scheduling point
(an overlap detector: if two such payloads could be on different threads, some explored
schedule interleaves them inside the section), next to blocked thread payloads.
"""
import itertools

from vlib.cosched import harness as H
from vlib.cosched import kit as K
from vlib.cosched.sched import Abort

SOURCES = ["queued", "adopt:outside", "adopt:threading", "adopt:other", "service",
           "execute:outside", "execute:other", "execute:threading", "execute:early",
           "adopt:own-loop", "adopt:in-section", "execute:foreign-trio",
           # plain callables that do a first part synchronously and return the awaitable
           "execute:plain", "adopt:plain", "queued:private-wait"]


class Scenario:
    def __init__(self, params):
        self.params = params
        self.kit = None
        self.outcome = None
        self.members = []

    def window(self, env):
        """An execute that arrives while the runtime is going down: after the runner of its
        flavour has stopped, before accept() has ended"""
        from cobald.daemon.runners.service import ServiceRunner

        params = self.params
        flavour = params["flavour"]
        runtime = ServiceRunner(accept_delay=1)
        kit = self.kit = K.Kit(env, runtime)
        kit.submit({"id": "m0", "flavour": flavour, "steps": [("forever-sections", 0.2)]})
        if params["window"] == "failure":
            # a payload of the flavour fails; the trio thread is busy, so closing takes a while
            kit.submit({"id": "failing", "flavour": flavour,
                        "steps": [("sleep", 1.0), ("raise", "LookupError")]})
            other = "trio" if flavour == "asyncio" else "asyncio"
            kit.submit({"id": "holder", "flavour": other,
                        "steps": [("sleep", 0.95), ("block-thread", 1.0), ("forever", 0.5)]})
            first_try = 1.05
        else:
            # shutdown(); an asyncio payload that needs several cancellations keeps it open
            kit.submit({"id": "holder", "flavour": "asyncio", "steps": [("stubborn", 3, 0.3)]})
            first_try = 1.55

            def stopper():
                runtime.running.wait()
                env.sleep(1.0)
                runtime.shutdown()

            env.spawn(stopper, "driver")

        def late_caller(index):
            runtime.running.wait()
            env.sleep(first_try)
            desc = {"id": "m%d" % (index + 1), "flavour": flavour, "steps": [("section", 2)]}
            for _attempt in range(4):
                outcome = kit.submit(desc, "execute")
                if outcome[0] == "returned":
                    break
                env.sleep(0.05)

        for index in range(2):
            env.spawn(late_caller, "late%d" % index, index)
        try:
            runtime.accept()
        except Abort:
            raise
        except BaseException as err:  # noqa: B036
            self.outcome = ("raised", err)
        else:
            self.outcome = ("returned", None)
        env.log("run-ended", how=self.outcome[0])

    def main(self, env):
        from cobald.daemon.runners.service import ServiceRunner

        params = self.params
        if params.get("window"):
            return self.window(env)
        flavour = params["flavour"]
        other = "trio" if flavour == "asyncio" else "asyncio"
        runtime = ServiceRunner(accept_delay=1)
        kit = self.kit = K.Kit(env, runtime)
        keep = env.shared.setdefault("keep", [])
        outside, early = [], []
        for index in range(params.get("blocked_threads", 0)):
            kit.submit({"id": "blocked%d" % index, "flavour": "threading",
                        "steps": [("section", 1), ("block",)]})
        if params.get("thread_from"):
            # a thread payload adopted from inside a coroutine payload
            carrier = params["thread_from"]
            kit.submit({"id": "tcarrier", "flavour": carrier,
                        "steps": [("sleep", 0.5),
                                  ("adopt", {"id": "blocked-late", "flavour": "threading",
                                             "steps": [("section", 1), ("block",)]}),
                                  ("forever", 0.5)]})
        for index, source in enumerate(params["sources"]):
            desc = {"id": "m%d" % index, "flavour": flavour,
                    "steps": [("section", params.get("sections", 3))]}
            self.members.append(desc)
            kind, _, where = source.partition(":")
            if where == "plain":
                desc["plain"] = True
                where = "threading"
            if where == "private-wait":
                # suspended on an object nobody else refers to while a thread payload runs
                # the garbage collector: its clean-up still belongs to the loop's thread
                desc["steps"] = [("section", 1), ("wait-private",)]
                desc["cleanup"] = ("sync", 1)
                desc["_sections"] = 1
                kit.submit({"id": "collector%d" % index, "flavour": "threading",
                            "steps": [("sleep", 0.7), ("call", "collect"), ("block",)]})
                env.shared["collect"] = lambda _env: __import__("gc").collect()
                kind = "queued"
            if kind == "queued":
                kit.submit(desc)
            elif kind == "service":
                keep.append(kit.service_class(desc)())
            else:
                op = "adopt" if kind == "adopt" else "execute"
                if where == "outside":
                    outside.append((op, desc))
                elif where == "early":
                    early.append(desc)
                elif where == "in-section":
                    kit.submit({"id": "carrier%d" % index, "flavour": flavour,
                                "steps": [("sleep", 0.5), ("section-adopt", desc),
                                          ("forever", 0.5)]})
                elif where == "foreign-trio":
                    kit.submit({"id": "carrier%d" % index, "flavour": "threading",
                                "steps": [("sleep", 0.5), ("execute-foreign-trio", desc),
                                          ("block",)]})
                elif where == "own-loop":
                    kit.submit({"id": "carrier%d" % index, "flavour": "threading",
                                "steps": [("sleep", 0.5), ("adopt-own-loop", desc), ("block",)]})
                else:
                    carrier = other if where == "other" else "threading"
                    tail = ("block",) if carrier == "threading" else ("forever", 0.5)
                    kit.submit({"id": "carrier%d" % index, "flavour": carrier,
                                "steps": [("sleep", 0.5), (op, desc), tail]})

        def outside_thread(op, desc):
            runtime.running.wait()
            kit.submit(desc, op)

        for index, (op, desc) in enumerate(outside):
            env.spawn(outside_thread, "outside%d" % index, op, desc)

        def early_thread(desc):
            # does not wait for the runtime to report running: retries until accepted
            for _attempt in range(400):
                outcome = kit.submit(desc, "execute")
                if outcome[0] == "returned":
                    break
                env.sleep(0.01)

        for index, desc in enumerate(early):
            env.spawn(early_thread, "early%d" % index, desc)

        def driver():
            runtime.running.wait()
            env.sleep(2.0)
            env.log("stop-call")
            runtime.shutdown()

        env.spawn(driver, "driver")
        try:
            runtime.accept()
        except Abort:
            raise
        except BaseException as err:  # noqa: B036
            self.outcome = ("raised", err)
        else:
            self.outcome = ("returned", None)
        env.log("run-ended", how=self.outcome[0])

    def check(self, ex):
        flavour = self.params["flavour"]
        violations = []
        if ex.deadlock:
            return {"violations": [("%s:deadlock" % flavour, repr(ex.deadlock_info))],
                    "outcome": "deadlock"}
        contexts, thread_contexts, sections = set(), set(), {}
        for seq, now, who, event, data in ex.log:
            if event == "overlap":
                violations.append((
                    "%s:overlap" % data["flavour"],
                    "two %s payloads were inside their synchronous sections at the same time "
                    "(%s, counter %r)" % (data["flavour"], data["id"], data["counter"])))
            if event in ("start", "section", "plain-call") and data["id"].startswith("m"):
                contexts.add((who, data["loop"], data["token"]))
                if event == "section":
                    sections[data["id"]] = sections.get(data["id"], 0) + 1
            if event in ("start", "section") and data["id"].startswith("blocked"):
                thread_contexts.add((who, data["loop"], data["token"]))
        threads = {who for _seq, _now, who, event, data in ex.log
                   if event in ("start", "section", "cleanup-step", "cleanup-done", "beat")
                   and isinstance(data, dict) and str(data.get("id", "")).startswith("m")}
        if len(threads) > 1 and len(contexts) <= 1:
            violations.append(("%s:payload-code-on-several-threads" % flavour,
                               "%s payloads (their steps and clean-up) ran on threads %r"
                               % (flavour, sorted(threads))))
        if len(contexts) > 1:
            violations.append(("%s:several-contexts" % flavour,
                               "%s payloads ran in different threads / loops: %r"
                               % (flavour, sorted(contexts, key=repr))))
        coroutine_threads = {who for who, _l, _t in contexts}
        for who, loop, token in thread_contexts:
            if who in coroutine_threads or who == "main" or loop is not None or token is not None:
                violations.append(("%s:thread-payload-on-coroutine-thread" % flavour,
                                   "a thread payload ran in %r" % ((who, loop, token),)))
        refused = any(event == "thread-start-refused" for _s, _n, _w, event, _d in ex.log)
        if refused:
            # the environment refused a thread: the runtime may fail, but a thread payload
            # still never runs on a coroutine thread (checked above), and accept() ends
            if self.outcome is None:
                violations.append(("%s:did-not-end-after-refused-thread" % flavour,
                                   "accept() did not end"))
        elif self.params.get("window"):
            if self.outcome is None:
                violations.append(("%s:did-not-end" % flavour, "accept() did not end"))
        elif self.outcome is None:
            violations.append(("%s:did-not-end" % flavour, "accept() did not end"))
        elif self.outcome[0] != "returned":
            violations.append(("%s:runtime-failed" % flavour,
                               "accept() raised %r" % (self.outcome[1],)))
        else:
            want = self.params.get("sections", 3)
            for desc in self.members:
                if sections.get(desc["id"], 0) != desc.get("_sections", want):
                    violations.append((
                        "%s:stalled" % flavour,
                        "%s completed %d of %d sections although only thread payloads block"
                        % (desc["id"], sections.get(desc["id"], 0), want)))
        return {"violations": violations,
                "outcome": repr((self.outcome and self.outcome[0], len(contexts),
                                 tuple(sorted(sections.items()))))}


def build(spec):
    return Scenario(spec["params"])


def scenario_params(tier):
    out = []
    for flavour in ("asyncio", "trio"):
        out.append({"flavour": flavour, "window": "failure", "sources": []})
    for flavour in ("asyncio", "trio"):
        for size in ((2,) if tier == "quick" else (2, 3)):
            for index, sources in enumerate(itertools.combinations_with_replacement(SOURCES, size)):
                if size == 3 and len(set(sources)) < 2:
                    continue
                blocked = [0, 2] if tier == "thorough" and size == 2 else [2 * (index % 2)]
                for blocked_threads in blocked:
                    out.append({"flavour": flavour, "sources": list(sources),
                                "blocked_threads": blocked_threads,
                                "sections": 3 if size == 2 else 2})
    # the OS refuses to start a payload thread (an injected environment fault, one deviation)
    for flavour in ("asyncio", "trio"):
        for thread_from in (None, "asyncio", "trio"):
            out.append({"flavour": flavour, "sources": ["queued"], "blocked_threads": 1,
                        "thread_from": thread_from, "faults": True, "sections": 3})
    return out


def run(ctx):
    bound = 1 if ctx.quick else 2
    in_core = (lambda params: True) if ctx.quick else H.core_scenarios(scenario_params)
    specs = [{
        "module": "checks.c11", "params": params,
        "bound": bound if in_core(params) else 1,
        "opts": {"time_horizon": 30.0, "drain": 2.0, "max_points": 8000, "free_switch_cost": 1,
                 "time_jump_cost": None if ctx.quick else 1,
                 "thread_start_faults": bool(params.get("faults"))},
        "budget": 3000 if ctx.quick else 8000,
    } for params in scenario_params(ctx.tier)]
    ctx.pmap(H.shard, specs)
    H.finish(
        ctx, specs,
        rule="flavour x multiset of payload sources (queued, adopted from outside / thread / "
             "other coroutine flavour, service, executed from outside / thread / other flavour) "
             "x blocked thread payloads x every schedule within the deviation bound, with a "
             "scheduling point inside every synchronous section; non-trivial = a schedule with a deviation"
             " (all explored schedules are distinct)",
        bounds={"deviation_bound": bound, "granularity": "synchronisation operations + one "
                "point inside each section"},
    )


replay = H.replay
