"""
C13 - the daemon runs its configured pipeline until stopped; failures set the exit status.

Decision: in-process under cosched - the real ``cli_run()`` (argument parsing, logging
set-up, config loading through the real entry-point groups, ServiceRunner) on generated
YAML / Python configurations, with recording pipeline elements, under every schedule
within the deviation bound including the SIGINT arrival point.  Binding: a few real
``python -m cobald.daemon`` child processes per tier, whose exit status and events must
agree with what the in-process runs predict.
"""
import itertools
import json
import logging
import os
import signal
import subprocess
import sys
import tempfile
import time

from vlib.core import Acc, VERIF, REPO
from vlib.cosched import harness as H
from vlib.cosched.sched import Abort

SERVICE_CLASS = {"trio": "DSvcTrio", "asyncio": "DSvcAsyncio", "threading": "DSvcThread"}
#: file names without a known extension; a file called ``.yaml`` is a hidden file without
#: extension (os.path.splitext, pathlib.Path.suffix), not a YAML file without name
ODD_FILE_NAMES = ["config", "config.yamlx", "config.yaml.bak", "config.py.orig", "yaml",
                  ".yaml", ".yml", ".py"]
ERRORS = ["unknown-extension", "yaml-syntax", "unknown-section", "missing-pipeline",
          "constructor-typeerror", "unknown-tag", "python-raises", "unknown-argument"]


# ---------------------------------------------------------------------------------------
# configuration texts


def elements(params):
    """[(class name, kwargs)] head to tail"""
    out = []
    for index, kind in enumerate(params["shape"]):
        label = "%s%d" % (kind, index)
        if kind == "svc":
            kwargs = {"label": label, "interval": 0.4}
            if params.get("falsy"):
                kwargs["falsy"] = True
            fail = params.get("fail")
            if fail and fail[0] == index:
                kwargs["fail_after"] = 2
                kwargs["fail_how"] = fail[1]
            out.append((SERVICE_CLASS[params["flavour"]], kwargs))
        elif kind == "decosvc":
            out.append(("DDecoSvc", {"label": label, "interval": 0.3}))
        elif kind == "deco":
            out.append(("DDeco", {"label": label}))
        elif kind == "pool":
            out.append(("DPool", {"label": label}))
        elif kind == "broken":
            out.append(("DBroken", {"label": label}))
    return out


def yaml_text(params):
    error = params.get("error")
    lines = []
    if params.get("logging"):
        lines += ["logging:", "  version: 1", "  loggers:", "    verif.dummy:",
                  "      level: INFO"]
    if error == "unknown-section":
        lines += ["nonsense:", "  a: 1"]
    if error == "missing-pipeline":
        return "\n".join(lines or ["{}"]) + "\n"
    lines.append("pipeline:")
    for index, (cls, kwargs) in enumerate(elements(params)):
        form = params["forms"][index % len(params["forms"])]
        if error == "unknown-tag" and index == 0:
            cls, form = "NoSuchTagAnywhere", "tag"
        if error == "unknown-argument" and index == 0:
            kwargs = dict(kwargs, no_such_argument=1)
        if form == "tag":
            lines.append("  - !%s" % cls)
            for key, value in kwargs.items():
                lines.append("    %s: %s" % (key, json.dumps(value)))
        else:
            lines.append("  - __type__: verif_daemon_plugins.%s" % cls)
            for key, value in kwargs.items():
                lines.append("    %s: %s" % (key, json.dumps(value)))
    if error == "yaml-syntax":
        lines.append("  - {unbalanced: [")
    return "\n".join(lines) + "\n"


def python_text(params):
    parts = []
    for cls, kwargs in elements(params):
        args = ", ".join("%s=%r" % item for item in kwargs.items())
        parts.append((cls, args))
    chain = " >> ".join(
        "%s.s(%s)" % (cls, args) if index < len(parts) - 1 else "%s(%s)" % (cls, args)
        for index, (cls, args) in enumerate(parts))
    text = "from verif_daemon_plugins import *\n"
    if params.get("py_style") == "dataclass":
        # a configuration module that relies on being importable under its own name
        text = ("from __future__ import annotations\nimport dataclasses\n" + text
                + "\n\n@dataclasses.dataclass\nclass Settings:\n    interval: float = 0.4\n"
                "    label: str = 'cfg'\n\n\nsettings = Settings()\n")
    if params.get("error") == "python-raises":
        text += "raise LookupError('configuration module fails')\n"
    return text + "pipeline = %s\n" % chain


def config_file(params, directory):
    error = params.get("error")
    if params["format"] == "py":
        name, text = "config.py", python_text(params)
    else:
        name, text = "config.yaml", yaml_text(params)
    if error == "unknown-extension":
        name = params.get("file_name", "config.toml")
    path = os.path.join(directory, name)
    with open(path, "w") as stream:
        stream.write(text)
    return path


def services_of(params):
    return ["%s%d" % (kind, index) for index, kind in enumerate(params["shape"])
            if kind in ("svc", "decosvc")]


def expects_start(params):
    error = params.get("error")
    return not error or error in ()


# ---------------------------------------------------------------------------------------
# in-process scenario


class _Capture(logging.Handler):
    def __init__(self):
        super().__init__(level=logging.ERROR)
        self.records = []

    def emit(self, record):
        self.records.append((record.name, record.levelname, record.getMessage()[:80]))


def _tmpdir(params):
    """A private directory below the one the check created (and removes) for this run"""
    base = params.get("_tmp") or tempfile.gettempdir()
    path = os.path.join(base, "p%d" % os.getpid())
    os.makedirs(path, exist_ok=True)
    return path


class Scenario:
    def __init__(self, params):
        self.params = params
        self.status = None
        self.capture = None

    def main(self, env):
        import cobald.daemon
        import cobald.daemon.core.main as daemon_main
        import verif_daemon_plugins as plugins
        from cobald.daemon.runners.service import ServiceRunner

        params = self.params
        plugins.SINK = env.log
        path = config_file(params, _tmpdir(params))
        runtime = ServiceRunner()
        saved = (cobald.daemon.runtime, daemon_main.runtime, sys.argv)
        cobald.daemon.runtime = daemon_main.runtime = runtime
        sys.argv = ["cobald", path, "--log-level", "WARNING"]
        self.capture = _Capture()
        logger = logging.getLogger("cobald.runtime")
        logger.addHandler(self.capture)
        wanted = services_of(params)
        if params["end"] == "sigint":
            def ready(sched):
                running = {d["id"] for _s, _n, _w, e, d in sched.log if e == "run"}
                return all(label in running for label in wanted) and any(
                    e == "constructed" for _s, _n, _w, e, d in sched.log)
            env.sigint(ready, deadline=1.5, cost=params.get("sigint_cost", 1))
        try:
            daemon_main.cli_run()
        except Abort:
            raise
        except SystemExit as err:
            self.status = ("exit", err.code)
        except BaseException as err:  # noqa: B036
            self.status = ("raised", err)
        else:
            self.status = ("returned", None)
        finally:
            env.log("daemon-ended", status=self.status and self.status[0])
            logger.removeHandler(self.capture)
            cobald.daemon.runtime, daemon_main.runtime, sys.argv = saved
            plugins.SINK = None
            logging.disable(logging.NOTSET)

    def check(self, ex):
        params = self.params
        end = params["end"]
        label = "%s:%s" % (params["format"], params.get("error") or end)
        violations = []
        if ex.deadlock:
            return {"violations": [("%s:deadlock" % label, repr(ex.deadlock_info))],
                    "outcome": "deadlock"}
        log = ex.log
        ended = [s for s, _n, _w, e, _d in log if e == "daemon-ended"]
        constructed = [(s, d) for s, _n, _w, e, d in log if e == "constructed"]
        runs = {}
        for s, n, _w, e, d in log:
            if e == "run":
                runs.setdefault(d["id"], []).append((s, n))
        errors = [r for r in (self.capture.records if self.capture else [])]
        exit_zero = self.status is not None and (
            self.status[0] == "returned" or (self.status[0] == "exit" and not self.status[1]))
        # a service whose run() was started before its constructor had finished: everything
        # else in such an execution is a consequence of that
        first_constructed = {}
        for s, d in constructed:
            first_constructed.setdefault(d["id"], s)
        early = [d["kind"] for _s, _n, _w, e, d in log if e == "run-before-init"]
        if early:
            return {"violations": [(
                "service-started-before-its-constructor-finished",
                "run() of a %s was started by the polling loop before its constructor had "
                "run (the service unit is registered in __new__)" % early[0])],
                "outcome": "started-before-constructed"}
        for service, starts in sorted(runs.items()):
            if service not in first_constructed or starts[0][0] < first_constructed[service]:
                return {"violations": [(
                    "service-started-before-its-constructor-finished",
                    "run() of service %s was started by the polling loop before its "
                    "constructor had returned (the service unit is registered in __new__)"
                    % service)], "outcome": "started-before-constructed"}
        if self.status is None:
            violations.append((
                "%s:stays-up" % label,
                "the daemon was still up at the horizon (t=%.1f)%s" % (
                    ex.now, "" if end == "sigint" else
                    " although its configuration is invalid / a service failed")))
            return {"violations": violations, "outcome": "did-not-end"}
        if end != "sigint":
            # invalid configuration or failing service: non-zero exit and an error logged
            if exit_zero:
                violations.append(("%s:exit-status-0" % label,
                                   "the daemon ended with status 0 (%r)" % (self.status,)))
            if not errors:
                violations.append(("%s:no-error-logged" % label,
                                   "nothing at ERROR level reached the cobald.runtime log"))
            if end.startswith("fail"):
                self._check_started(violations, label, constructed, runs)
            return {"violations": violations,
                    "outcome": repr((self.status[0], type(self.status[1]).__name__))}
        # valid configuration stopped by SIGINT
        if not exit_zero:
            violations.append(("%s:exit-status-nonzero" % label,
                               "SIGINT ended the daemon with %r" % (self.status,)))
        self._check_started(violations, label, constructed, runs)
        sigint = [n for _s, n, _w, e, _d in log if e == "sigint-raised"]
        for service in services_of(params):
            beats = [n for _s, n, _w, e, d in log if e == "beat" and d["id"] == service]
            interval = 0.4 if service.startswith("svc") else 0.3
            if service in runs and sigint and sigint[0] - runs[service][0][1] > 2 * interval:
                last = max(beats) if beats else None
                if last is None or sigint[0] - last > interval + 1e-6:
                    violations.append((
                        "%s:service-not-kept-running" % label,
                        "%s last beat at %r, SIGINT came at %.2f" % (service, last, sigint[0])))
            coroutine = service.startswith("decosvc") or params["flavour"] != "threading"
            if coroutine and service in runs:
                cancelled = [s for s, _n, _w, e, d in log
                             if e == "cancelled" and d["id"] == service]
                if not cancelled or (ended and cancelled[0] > ended[0]):
                    violations.append(("%s:service-not-cancelled" % label,
                                       "%s was not cancelled before the daemon ended" % service))
                late = [e for s, _n, _w, e, d in log
                        if ended and s > ended[0] and d.get("id") == service]
                if late:
                    violations.append(("%s:service-runs-after-exit" % label,
                                       "%s: %r after the daemon ended" % (service, late[:3])))
        return {"violations": violations,
                "outcome": repr((self.status[0], len(constructed), sorted(runs)))}

    def _check_started(self, violations, label, constructed, runs):
        params = self.params
        want = [kwargs["label"] for _cls, kwargs in elements(params)]
        got = [d["id"] for _s, d in constructed]
        if got != list(reversed(want)):
            violations.append(("%s:construction" % label,
                               "constructed %r, configured (last to first) %r"
                               % (got, list(reversed(want)))))
        for _s, d in constructed:
            if d["loop"] is None or not d["thread"]:
                violations.append(("%s:constructed-outside-loop" % label,
                                   "%s was constructed without the running event loop (%r)"
                                   % (d["id"], d)))
        for service in services_of(params):
            count = len(runs.get(service, ()))
            if count != 1:
                violations.append(("%s:service-started-%d-times" % (label, count),
                                   "service %s was started %d times" % (service, count)))


def build(spec):
    return Scenario(spec["params"])


def scenario_params(tier):
    out = []
    shapes = [("svc", "pool"), ("svc", "deco", "pool"), ("svc", "decosvc", "pool"), ("pool",),
              ("deco", "pool")]
    forms = [("tag",), ("type",), ("tag", "type"), ("type", "tag")]
    for shape, flavour, form, logging_section in itertools.product(
            shapes, list(SERVICE_CLASS), forms, [False, True]):
        if "svc" not in shape and flavour != "trio":
            continue
        if tier == "quick" and logging_section and form != ("tag", "type"):
            continue
        out.append({"format": "yaml", "shape": shape, "flavour": flavour, "forms": form,
                    "logging": logging_section, "end": "sigint",
                    "sigint_cost": 1 if tier == "quick" else 0})
    for shape, flavour in itertools.product(shapes, list(SERVICE_CLASS)):
        if "svc" not in shape and flavour != "trio":
            continue
        out.append({"format": "py", "shape": shape, "flavour": flavour, "forms": ("tag",),
                    "end": "sigint", "sigint_cost": 1 if tier == "quick" else 0})
        if shape == ("svc", "pool"):
            out.append({"format": "py", "py_style": "dataclass", "shape": shape,
                        "flavour": flavour, "forms": ("tag",), "end": "sigint",
                        "sigint_cost": 1 if tier == "quick" else 0})
    # services that are falsy objects (container-like elements)
    for fmt, flavour in itertools.product(["yaml", "py"], list(SERVICE_CLASS)):
        out.append({"format": fmt, "shape": ("svc", "pool"), "flavour": flavour,
                    "forms": ("type",) if fmt == "yaml" else ("tag",), "falsy": True,
                    "end": "sigint", "sigint_cost": 1 if tier == "quick" else 0})
    # failing services
    for fmt, flavour, how, shape in itertools.product(
            ["yaml", "py"], list(SERVICE_CLASS), ["raise", "return", "exit"],
            [("svc", "pool"), ("svc", "decosvc", "pool")]):
        out.append({"format": fmt, "shape": shape, "flavour": flavour, "forms": ("tag", "type"),
                    "end": "fail", "fail": (0, how)})
        if fmt == "yaml" and (tier != "quick" or shape == ("svc", "pool")):
            # the same with a logging section (which re-configures logging before the
            # failure has to be reported)
            out.append({"format": fmt, "shape": shape, "flavour": flavour,
                        "forms": ("tag", "type"), "end": "fail", "fail": (0, how),
                        "logging": True})
    # configuration errors
    for error in ERRORS:
        fmt = "py" if error == "python-raises" else "yaml"
        shape = ("broken", "pool") if error == "constructor-typeerror" else ("svc", "pool")
        for flavour in (["trio"] if tier == "quick" else list(SERVICE_CLASS)):
            out.append({"format": fmt, "shape": shape, "flavour": flavour,
                        "forms": ("tag",), "end": "error", "error": error})
            if fmt == "yaml" and error not in ("unknown-extension", "yaml-syntax"):
                out.append({"format": fmt, "shape": shape, "flavour": flavour,
                            "forms": ("tag",), "end": "error", "error": error,
                            "logging": True})
            if error in ("constructor-typeerror", "unknown-argument"):
                out.append({"format": fmt, "shape": shape, "flavour": flavour,
                            "forms": ("type",), "end": "error", "error": error})
    out.append({"format": "py", "shape": ("broken", "pool"), "flavour": "trio",
                "forms": ("tag",), "end": "error", "error": "constructor-typeerror"})
    for name in ODD_FILE_NAMES:
        out.append({"format": "py" if ".py" in name else "yaml", "shape": ("svc", "pool"),
                    "flavour": "trio", "forms": ("tag",), "end": "error",
                    "error": "unknown-extension", "file_name": name})
    return out


# ---------------------------------------------------------------------------------------
# binding to real processes


def run_process(params, timeout=90.0):
    """Run a real ``python -m cobald.daemon``; returns (exit status, events, stderr tail)"""
    directory = tempfile.mkdtemp(prefix="verif-c13p-")
    path = config_file(params, directory)
    events_path = os.path.join(directory, "events.jsonl")
    env = dict(os.environ, VERIF_EVENT_FILE=events_path,
               PYTHONPATH=os.pathsep.join([os.path.join(REPO, "src"),
                                           os.path.join(VERIF, "plugins")]))
    proc = subprocess.Popen(
        [sys.executable, "-m", "cobald.daemon", path], env=env, cwd=directory,
        stdout=subprocess.PIPE, stderr=subprocess.PIPE, text=True)
    wanted = services_of(params)

    def read_events():
        try:
            with open(events_path) as stream:
                return [json.loads(line) for line in stream if line.strip()]
        except FileNotFoundError:
            return []

    limit = time.monotonic() + timeout
    ready_limit = time.monotonic() + 30.0
    signalled = None
    try:
        while proc.poll() is None and time.monotonic() < limit:
            if params["end"] == "sigint" and signalled is None:
                events = read_events()
                running = {e["id"] for e in events if e["event"] == "run"}
                beats = sum(1 for e in events if e["event"] == "beat")
                if all(w in running for w in wanted) and (beats >= 2 * len(wanted)) and any(
                        e["event"] == "constructed" for e in events):
                    proc.send_signal(signal.SIGINT)
                    signalled = time.monotonic()
                elif time.monotonic() > ready_limit:
                    break  # never came up: reported as such
            time.sleep(0.05)
        timed_out = proc.poll() is None
        if timed_out:
            proc.kill()
        out, err = proc.communicate()
    finally:
        if proc.poll() is None:
            proc.kill()
    events = read_events()
    import shutil

    shutil.rmtree(directory, ignore_errors=True)
    return {"status": None if timed_out else proc.returncode, "events": events,
            "stderr": err[-2000:], "signalled": signalled is not None}


def process_case(params):
    """One conformance run; returns an accumulator"""
    acc = Acc()
    result = run_process(params)
    label = "process:%s:%s" % (params["format"], params.get("error") or params["end"])
    status, events = result["status"], result["events"]
    problem = None
    if status is None:
        problem = ("%s:did-not-exit" % label, "the daemon process did not exit within 90 s")
    elif params["end"] == "sigint":
        if not result["signalled"]:
            problem = ("%s:never-up" % label,
                       "the services were never seen running; exit status %r; stderr: %s"
                       % (status, result["stderr"][-300:]))
        elif status != 0:
            problem = ("%s:exit-status-%s" % (label, status),
                       "SIGINT ended the real daemon with status %r" % status)
        else:
            for service in services_of(params):
                if sum(1 for e in events if e["event"] == "run" and e["id"] == service) != 1:
                    problem = ("%s:service-start" % label, "%s not started once" % service)
            if any(e["loop"] is None for e in events if e["event"] == "constructed"):
                problem = ("%s:constructed-outside-loop" % label, "constructed without loop")
    else:
        if status == 0:
            problem = ("%s:exit-status-0" % label, "the real daemon exited with status 0")
        elif "Traceback" not in result["stderr"] and "rror" not in result["stderr"]:
            problem = ("%s:no-error-logged" % label, "no error on the log: %r"
                       % result["stderr"][-300:])
    acc.case(nontrivial_key=json.dumps(params, sort_keys=True),
             sample={"process": params, "status": status, "events": len(events)})
    acc.count("real-daemon-processes")
    acc.outcome(("process", status))
    if problem:
        acc.violation(problem[0], problem[1], {"process": params})
    return acc


def process_params(tier):
    base = {"format": "yaml", "shape": ("svc", "decosvc", "pool"), "forms": ("tag", "type"),
            "logging": True}
    out = [dict(base, flavour=flavour, end="sigint") for flavour in SERVICE_CLASS]
    out.append({"format": "py", "shape": ("svc", "pool"), "flavour": "trio", "forms": ("tag",),
                "end": "sigint"})
    out.append({"format": "py", "py_style": "dataclass", "shape": ("svc", "pool"),
                "flavour": "asyncio", "forms": ("tag",), "end": "sigint"})
    out += [dict(base, flavour=flavour, end="fail", fail=(0, "raise"))
            for flavour in (["asyncio"] if tier == "quick" else SERVICE_CLASS)]
    out.append(dict(base, flavour="threading", end="fail", fail=(0, "return")))
    for error in (["unknown-extension", "unknown-section", "constructor-typeerror"]
                  if tier == "quick" else ERRORS):
        fmt = "py" if error == "python-raises" else "yaml"
        shape = ("broken", "pool") if error == "constructor-typeerror" else ("svc", "pool")
        out.append({"format": fmt, "shape": shape, "flavour": "trio", "forms": ("tag",),
                    "end": "error", "error": error})
    for name in ([".yaml"] if tier == "quick" else ODD_FILE_NAMES):
        out.append({"format": "py" if ".py" in name else "yaml", "shape": ("svc", "pool"),
                    "flavour": "trio", "forms": ("tag",), "end": "error",
                    "error": "unknown-extension", "file_name": name})
    return out


def shard(item):
    kind, payload = item
    if kind == "process":
        return process_case(payload)
    return H.shard(payload)


def run(ctx):
    import shutil

    base = tempfile.mkdtemp(prefix="verif-c13-")
    try:
        _run(ctx, base)
    finally:
        shutil.rmtree(base, ignore_errors=True)


def _run(ctx, base):
    bound = 1 if ctx.quick else 2
    in_core = (lambda params: True) if ctx.quick else H.core_scenarios(scenario_params)
    specs = [{
        "module": "checks.c13", "params": dict(params, _tmp=base),
        "bound": bound if in_core(params) else 1,
        "opts": {"time_horizon": 25.0, "drain": 2.0, "max_points": 8000, "free_switch_cost": 1,
                     "time_jump_cost": None if ctx.quick else 1},
        "budget": 2500 if ctx.quick else 8000,
    } for params in scenario_params(ctx.tier)]
    # two threads meet in the service registry / the adoption of services: source-line and
    # loop-iteration granularity for a few valid configurations
    for line_spec in H.line_variants(
            specs, lambda p: p["end"] == "sigint" and p["format"] == "yaml"
            and p["shape"] == ("svc", "decosvc", "pool") and p["forms"] == ("tag", "type")
            and (not ctx.quick or (p["flavour"] == "asyncio" and not p.get("logging"))),
            budget=6000):
        specs += H.split(line_spec, 8)
    items = [("process", params) for params in process_params(ctx.tier)]
    items += [("cosched", spec) for spec in specs]
    ctx.pmap(shard, items, cost=lambda item: 1 if item[0] == "process" else 0)
    H.finish(
        ctx, specs,
        rule="generated configurations (YAML !Tag / __type__ mixtures, optional logging "
             "section; Python modules with >>) x pipeline shape x service flavour x end (SIGINT "
             "at every explored point, failing service raise/return, each configuration error) "
             "x every schedule within the deviation bound, through the real cli_run(); plus %d "
             "real daemon processes; non-trivial = a schedule with at least one deviation from the default one (all explored schedules are distinct)"
             % len(process_params(ctx.tier)),
        bounds={"deviation_bound": bound, "granularity": "synchronisation operations",
                "real_processes": len(process_params(ctx.tier))},
        assumptions=["the verdict comes from the in-process runs of the same cli_run() code "
                     "path; real processes bind it to `python -m cobald.daemon` for one "
                     "signal time per outcome class (real signal timing cannot be enumerated)"],
    )


def replay(data):
    import shutil

    if "process" in data:
        acc = process_case(data["process"])
        return "; ".join(v["what"] for v in acc.violations) or None
    base = tempfile.mkdtemp(prefix="verif-c13-")
    try:
        data["spec"]["params"]["_tmp"] = base
        return H.replay(data)
    finally:
        shutil.rmtree(base, ignore_errors=True)
