"""
C02 - termination cancels every coroutine payload and finishes its cleanup first.

Engine: cosched.  Trigger x population of still-running coroutine payloads (sleeping,
spinning, just adopted, adopted from another payload; synchronous / shielded cleanup) x
blocked thread payloads x every schedule within the deviation bound, including the point
at which a SIGINT arrives.  The oracle reads the payloads' own event log.
"""
import itertools

from vlib.cosched import harness as H
from vlib.cosched import kit as K
from vlib.cosched.sched import Abort

ASYNCIO_POPULATIONS = ["none", "sleeper", "sleeper+sync", "spinner+sync", "sleeper+spinner",
                       "child-of-trio", "late", "stubborn", "private-wait"]
TRIO_POPULATIONS = ["none", "sleeper", "sleeper+sync", "shield0.5", "shield5", "spinner+sync",
                    "sleeper+spinner", "child-of-asyncio", "late", "private-wait",
                    "drains-other"]
TRIGGERS = ["fail:asyncio", "fail:trio", "fail:threading", "sigint", "shutdown", "stop",
            "ki:asyncio", "ki:trio", "ki:threading",
            # shutdown() / stop() asked for by a coroutine payload, through a helper thread
            "shutdown:from-trio", "stop:from-trio", "shutdown:from-asyncio"]


def population(flavour, kind):
    """(payloads queued before start, payloads adopted at trigger time by an outside thread)"""
    other = "trio" if flavour == "asyncio" else "asyncio"
    mk = lambda ident, steps, cleanup=None: {  # noqa: E731
        "id": "%s-%s" % (flavour, ident), "flavour": flavour, "steps": steps, "cleanup": cleanup}
    if kind == "none":
        return [], []
    if kind == "sleeper":
        return [mk("sleeper", [("forever", 0.7)])], []
    if kind == "sleeper+sync":
        return [mk("sleeper", [("forever", 0.7)], ("sync", 2))], []
    if kind == "spinner+sync":
        return [mk("spinner", [("sleep", 0.85), ("spin", None)], ("sync", 2))], []
    if kind == "sleeper+spinner":
        return [mk("sleeper", [("forever", 0.7)], ("sync", 1)),
                mk("spinner", [("sleep", 0.85), ("spin", None)])], []
    if kind == "drains-other" and flavour == "trio":
        # a trio payload that keeps draining, shielded, until an asyncio payload has finished
        return [mk("drain", [("forever", 0.7)], ("shield-until", "producer-done")),
                {"id": "asyncio-producer", "flavour": "asyncio", "steps": [("forever", 0.7)],
                 "cleanup": ("sync-set", "producer-done")}], []
    if kind == "private-wait":
        # suspended on an object only it refers to, while the garbage collector runs
        return [mk("waiter", [("wait-private",)], ("sync", 1))], []
    if kind == "stubborn":
        # finishes its current item before it gives in: needs a second cancellation
        return [mk("stubborn", [("stubborn", 1, 0.3)], ("sync", 1))], []
    if kind.startswith("shield"):
        return [mk("shielded", [("forever", 0.7)], ("shield", float(kind[6:])))], []
    if kind.startswith("child-of-"):
        child = mk("child", [("forever", 0.7)], ("sync", 1))
        return [{"id": "%s-parent-of-%s" % (other, flavour), "flavour": other,
                 "steps": [("sleep", 0.9), ("adopt", child), ("forever", 0.7)]}], []
    if kind == "late":
        return [], [mk("late", [("forever", 0.7)], ("sync", 1))]
    raise ValueError(kind)


class Scenario:
    def __init__(self, params):
        self.params = params
        self.outcome = None
        self.kit = None

    def main(self, env):
        from cobald.daemon.runners.meta_runner import MetaRunner
        from cobald.daemon.runners.service import ServiceRunner

        params = self.params
        trigger = params["trigger"]
        if trigger.startswith("stop"):
            meta = MetaRunner()
            runtime = H.MetaAdapter(meta)
            blocking_run, stop = meta.run, meta.stop
        else:
            runtime = ServiceRunner(accept_delay=1)
            blocking_run, stop = runtime.accept, runtime.shutdown
        kit = self.kit = K.Kit(env, runtime)
        queued_a, late_a = population("asyncio", params["asyncio"])
        queued_t, late_t = population("trio", params["trio"])
        for desc in queued_a + queued_t:
            kit.submit(desc)
        if params.get("blocked_thread"):
            kit.submit({"id": "thread-blocked", "flavour": "threading", "steps": [("block",)]})
        if trigger.startswith("fail:"):
            kit.submit({"id": "f0", "flavour": trigger[5:],
                        "steps": [("sleep", 1.0), ("raise", "LookupError")]})
        if trigger.startswith("ki:"):
            # a payload raises KeyboardInterrupt itself
            kit.submit({"id": "f0", "flavour": trigger[3:],
                        "steps": [("sleep", 1.0), ("raise", "KeyboardInterrupt")]})
        late = late_a + late_t
        if ":from-" in trigger:
            def request_stop(env):
                env.log("stop-call")
                try:
                    stop()
                except Abort:
                    raise
                except BaseException as err:  # noqa: B036
                    env.log("stop-raised", exc=err)
                else:
                    env.log("stop-returned")

            env.shared["request-stop"] = request_stop
            kit.submit({"id": "%s-requester" % trigger.split("-")[1],
                        "flavour": trigger.split("-")[1],
                        "steps": [("sleep", 1.0), ("to-thread-call", "request-stop"),
                                  ("forever", 0.7)], "cleanup": ("sync", 1)})

        def outside():
            runtime.running.wait()
            env.sleep(1.0)
            for desc in late:
                kit.submit(desc)
            if trigger in ("shutdown", "stop"):
                env.log("stop-call")
                try:
                    stop()
                except Abort:
                    raise
                except BaseException as err:  # noqa: B036
                    env.log("stop-raised", exc=err)
                else:
                    env.log("stop-returned")

        if late or trigger in ("shutdown", "stop"):
            env.spawn(outside, "driver")

        def collector():
            import gc

            runtime.running.wait()
            env.sleep(0.5)
            env.log("gc", collected=gc.collect() >= 0)

        if "private-wait" in (params["asyncio"], params["trio"]):
            env.spawn(collector, "collector")
        if trigger == "sigint":
            env.sigint(lambda s: runtime.running.peek() and s.now > 0.0, deadline=1.0,
                       cost=params.get("sigint_cost", 1))
        try:
            blocking_run()
        except Abort:
            raise
        except BaseException as err:  # noqa: B036
            self.outcome = ("raised", err)
            env.log("run-ended", how="raised", exc=err)
        else:
            self.outcome = ("returned", None)
            env.log("run-ended", how="returned")

    def check(self, ex):
        violations = []
        trigger = self.params["trigger"]
        events = {}
        flavour_of = {}
        end_seq = None
        for seq, now, who, event, data in ex.log:
            if event == "run-ended":
                end_seq = seq
            ident = data.get("id") if isinstance(data, dict) else None
            if ident is not None and event in (
                    "start", "beat", "cancelled", "cleanup-step", "cleanup-done", "left"):
                events.setdefault(ident, []).append((seq, now, event, data))
        for ident in events:
            flavour_of[ident] = ident.split("-")[0] if not ident.startswith("f0") else \
                trigger.split(":")[1]
        if ex.deadlock:
            violations.append(("%s:deadlock" % trigger, "deadlock: %r" % (ex.deadlock_info,)))
        elif end_seq is None:
            violations.append(("%s:did-not-end" % trigger,
                               "the blocking run call did not end before the horizon "
                               "(t=%.1f)" % ex.now))
        else:
            for ident, evs in sorted(events.items()):
                flavour = flavour_of[ident]
                if flavour not in ("asyncio", "trio") or ident == "f0":
                    continue
                names = [e[2] for e in evs]
                if "start" not in names:
                    continue
                after = [e for e in evs if e[0] > end_seq]
                if after:
                    violations.append((
                        "%s:%s:step-after-end" % (trigger, flavour),
                        "payload %s ran %r at t=%.2f after the run call had ended"
                        % (ident, after[0][2], after[0][1])))
                    continue
                want = "asyncio.CancelledError" if flavour == "asyncio" else "trio.Cancelled"
                cancelled = [e for e in evs if e[2] == "cancelled"]
                if not cancelled:
                    violations.append((
                        "%s:%s:not-cancelled" % (trigger, flavour),
                        "payload %s was still running when the run call ended and was never "
                        "cancelled (events: %r)" % (ident, names[-4:])))
                    continue
                if cancelled[0][3].get("how") != want:
                    violations.append((
                        "%s:%s:wrong-cancellation" % (trigger, flavour),
                        "payload %s saw %r" % (ident, cancelled[0][3].get("how"))))
                if "cleanup-done" not in names:
                    violations.append((
                        "%s:%s:cleanup-unfinished" % (trigger, flavour),
                        "payload %s was cancelled but its cleanup had not finished when the "
                        "run call ended" % ident))
        outcome = self.outcome[0] if self.outcome else None
        started = sorted(i for i, evs in events.items() if any(e[2] == "start" for e in evs))
        return {"violations": violations, "outcome": repr((outcome, tuple(started)))}


def build(spec):
    return Scenario(spec["params"])


def scenario_params(tier):
    out = []
    for index, (pop_a, pop_t, trigger) in enumerate(itertools.product(
            ASYNCIO_POPULATIONS, TRIO_POPULATIONS, TRIGGERS)):
        if pop_a == "none" and pop_t == "none":
            continue
        if trigger.startswith("ki:") and tier == "quick" and not (
                pop_a in ("none", "sleeper+sync") and pop_t in ("sleeper+sync", "shield0.5",
                                                                "shield5")):
            continue
        if ":from-" in trigger and not (
                pop_a in ("none", "sleeper+sync") and pop_t in ("sleeper+sync", "shield0.5")):
            continue
        if pop_t == "drains-other" and (pop_a != "none" or trigger in ("fail:trio", "ki:trio")):
            # (when trio itself is what fails, the runtime only learns of it once trio has
            # ended, and this population keeps trio from ending until the others are told:
            # a wait in a circle by construction)
            continue
        if "private-wait" in (pop_a, pop_t) and not (
                {pop_a, pop_t} <= {"private-wait", "none", "sleeper"}):
            continue
        if trigger.startswith("stop") and ("late" in (pop_a, pop_t)):
            # a bare MetaRunner has no documented behaviour for adopt racing stop()
            continue
        blocked = [False, True] if tier == "thorough" else [index % 2 == 1]
        for blocked_thread in blocked:
            out.append({"asyncio": pop_a, "trio": pop_t, "trigger": trigger,
                        "blocked_thread": blocked_thread,
                        "sigint_cost": 1 if tier == "quick" else 0})
    return out


def run(ctx):
    bound = 1 if ctx.quick else 2
    in_core = (lambda params: True) if ctx.quick else H.core_scenarios(scenario_params)
    specs, deep_specs = [], []
    for params in scenario_params(ctx.tier):
        spinning = "spinner" in params["asyncio"] or "spinner" in params["trio"]
        # a payload adopted while the trigger fires: the submitter may be descheduled and
        # resumed anywhere in the shutdown sequence (two deviations) - also in the quick tier
        deep = params["asyncio"] == "late" and params["trio"] == "none"
        pieces = specs if not (deep and ctx.quick) else deep_specs
        pieces.append({
            "module": "checks.c02", "params": params,
            # thorough: two deviations for the quick-tier scenarios without the blocked
            # thread (it only adds a waiting thread); measured: the full set takes > 90 min
            "bound": 2 if deep else (
                bound if in_core(params) and (ctx.quick or not params["blocked_thread"]) else 1),
            "opts": {"spin_time": 0.05 if spinning else 0.0, "time_horizon": 40.0,
                     "drain": 4.0, "max_points": 8000, "free_switch_cost": 1,
                     "time_jump_cost": None if ctx.quick else 1},
            "budget": (8000 if deep else 3000) if ctx.quick else 12000,
        })
    for spec in deep_specs:
        specs += H.split(spec, 8)
    if not ctx.quick:
        specs += H.line_variants(
            specs, lambda p: p["blocked_thread"] and (
                "late" in (p["asyncio"], p["trio"]) or "child" in p["asyncio"] + p["trio"]
                or (p["asyncio"], p["trio"]) == ("sleeper+sync", "shield0.5")))
    ctx.pmap(H.shard, specs, cost=lambda s: 2 * bool(s["opts"].get("line_points")) + s["bound"])
    H.finish(
        ctx, specs,
        rule="trigger (failure per flavour, SIGINT at every explored point, shutdown(), "
             "MetaRunner.stop()) x asyncio population x trio population x blocked thread x every "
             "schedule within the deviation bound; non-trivial = a schedule with at least one deviation from the default one (all explored schedules are distinct)",
        bounds={"deviation_bound": bound, "late_asyncio_adoption_bound": 2,
                "granularity": "synchronisation operations" + (
            "" if ctx.quick else "; source lines of the runner package at bound 1 for the "
            "late / child / shielded populations"),
                "sigint": "one delivery per execution; arrival point is a cost-%d choice"
                          % (1 if ctx.quick else 0)},
        assumptions=["asyncio cleanup is synchronous only; an asyncio payload may absorb its "
                     "first cancellation (the runner re-cancels every 0.1 s), payloads that "
                     "swallow every cancellation are not in the population"],
    )


replay = H.replay
