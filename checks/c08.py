"""
C08 - controllers move demand only in the documented direction and amount.

Engine: smallscope (bounded-exhaustive input enumeration, sequences of 1..3 steps) plus
trioclock for Stepwise, whose only entry point is ``run()``.

* LinearController / RelativeSupplyController: every constructor parameter combination of
  a small grid (acceptance compared with the documented conditions), every pool state of a
  grid holding each threshold, its two floating point neighbours and a coarse neighbour,
  ``regulate(interval)`` sequences of length 1..3; the demand after every step is compared
  with the property statement.
* Stepwise: every rule table with 0..3 thresholds out of four in every declaration order,
  built directly and through UnboundStepwise (decorator form, call form, ``.s() >>``,
  default interval); rules log their call and return a number, 0 or None; the real
  ``run()`` performs one iteration per step under a virtual clock.
* DemandSwitch.regulate: every table of 0..3 (threshold, controller) pairs in every
  declaration order, recording sub-controllers constructed with target None or the
  switch's target.
"""
import itertools
import math
from fractions import Fraction

from vlib.core import Acc

DELTA = 0.125


def describe_error(err):
    return "%s: %s" % (type(err).__name__, err)


# ---------------------------------------------------------------------------------------
# pools and recorders (plain python; the trio based ones come from vlib.trioclock)


def make_state_pool():
    from cobald.interfaces import Pool

    class StatePool(Pool):
        """Pool whose whole state is set by the harness; demand writes are counted"""

        supply = utilisation = allocation = 0.0

        def __init__(self, demand, supply, utilisation, allocation):
            self._demand = demand
            self.supply = supply
            self.utilisation = utilisation
            self.allocation = allocation
            self.writes = 0

        @property
        def demand(self):
            return self._demand

        @demand.setter
        def demand(self, value):
            self.writes += 1
            self._demand = value

    return StatePool


_CLASSES = {}


def state_pool(*args):
    if "pool" not in _CLASSES:
        _CLASSES["pool"] = make_state_pool()
    return _CLASSES["pool"](*args)


def recording_controller(log, name, target):
    if "ctl" not in _CLASSES:
        from cobald.interfaces import Controller

        class RecordingController(Controller):
            def __init__(self, target, log, name):
                super().__init__(target)
                self.log = log
                self.name = name

            def regulate(self, interval):
                self.log.append((self.name, interval, self.target))

        _CLASSES["ctl"] = RecordingController
    return _CLASSES["ctl"](target, log, name)


# ---------------------------------------------------------------------------------------
# Linear / RelativeSupply

LOWS = [0.0, 0.25, 0.5, 1.0]
HIGHS = [0.0, 0.25, 0.5, 0.75, 1.0]
RATES = [-1, 0, 0.5, 1, 3]
CTOR_INTERVALS = [0.5, 10]
STEP_INTERVALS = [0.5, 1, 10]
DEEP_INTERVALS = [0.5, 10]
LOW_SCALES = [0, 0.5, 0.9, 1, 1.5]
HIGH_SCALES = [0.5, 1, 1.1, 2]


def around(threshold):
    """fine grid: the threshold, both floating point neighbours, a coarse neighbour on
    each side and the ends of [0, 1]"""
    values = {0.0, threshold - DELTA, math.nextafter(threshold, -math.inf), threshold,
              math.nextafter(threshold, math.inf), threshold + DELTA, 1.0}
    return sorted(v for v in values if 0.0 <= v <= 1.0)


def coarse(threshold):
    return sorted(v for v in {threshold - DELTA, threshold, threshold + DELTA}
                  if 0.0 <= v <= 1.0)


def linear_problem(low, high, rate, utilisation, allocation, interval, before, after):
    """The statement for one LinearController step; (kind, text) if broken"""
    down, up = utilisation < low, allocation > high
    amount = Fraction(rate) * Fraction(interval)
    if isinstance(after, bool) or not isinstance(after, (int, float)) or not math.isfinite(after):
        return "demand-not-a-number", "demand became %r" % (after,)
    delta = Fraction(after) - Fraction(before)
    if abs(delta) > amount:
        return "exceeds-rate-x-interval", "changed by %s, more than rate x interval = %s" % (
            float(delta), float(amount))
    if down and up:
        return None  # only the bound is stated when both conditions hold
    if not down and not up:
        if delta != 0:
            return "moved-without-condition", (
                "changed by %s although utilisation is not below low_utilisation and "
                "allocation is not above high_allocation" % float(delta))
        return None
    want = -amount if down else amount
    if delta == want:
        return None
    if delta == 0:
        return "not-moved", "did not change, expected %s" % float(want)
    if (delta > 0) != (want > 0):
        return "wrong-direction", "changed by %s, expected %s" % (float(delta), float(want))
    return "wrong-amount", "changed by %s, expected exactly %s" % (float(delta), float(want))


def close(a, b):
    return a == b or math.isclose(a, b, rel_tol=1e-12, abs_tol=0.0)


def relsupply_problem(low, high, low_scale, high_scale, utilisation, allocation, supply,
                      after):
    down, up = utilisation < low, allocation > high
    wanted = []
    if down:
        wanted.append(("low-scale", supply * low_scale))
    if up:
        wanted.append(("high-scale", supply * high_scale))
    if not wanted:
        wanted.append(("unscaled", supply))
    if isinstance(after, bool) or not isinstance(after, (int, float)):
        return "demand-not-a-number", "demand became %r" % (after,)
    if any(close(after, value) for _, value in wanted):
        return None
    got = "other"
    for name, value in (("low-scale", supply * low_scale), ("high-scale", supply * high_scale),
                        ("unscaled", supply)):
        if close(after, value):
            got = name
            break
    return "want-%s:got-%s" % ("-or-".join(n for n, _ in wanted), got), (
        "demand is %r, expected %s" % (
            after, " or ".join("%r (supply x %s)" % (v, n) for n, v in wanted)))


def construct_linear(case, pool):
    from cobald.controller.linear import LinearController

    return LinearController(pool, low_utilisation=case["low"], high_allocation=case["high"],
                            rate=case["rate"], interval=case["cinterval"])


def construct_relsupply(case, pool):
    from cobald.controller.relative_supply import RelativeSupplyController

    return RelativeSupplyController(
        pool, low_utilisation=case["low"], high_allocation=case["high"],
        low_scale=case["low_scale"], high_scale=case["high_scale"],
        interval=case["cinterval"])


def valid_params(case):
    if case["low"] > case["high"]:
        return False
    if case["kind"] == "linear":
        return case["rate"] > 0
    return case["low_scale"] < 1 and case["high_scale"] > 1


def run_regulator_case(case):
    """case: kind linear|relsupply, constructor parameters, demand, steps [(u, a, x)...]
    where x is the regulate interval (linear) or (supply, interval) (relsupply).

    Returns None or (key, description)."""
    kind = case["kind"]
    low, high = case["low"], case["high"]
    pool = state_pool(case["demand"], case.get("supply", 0.0), 1.0, 1.0)
    try:
        controller = (construct_linear if kind == "linear" else construct_relsupply)(
            case, pool)
    except Exception as err:  # noqa: B902
        if valid_params(case):
            return "%s:constructor-rejects-valid" % kind, (
                "constructor raised %s for parameters the documentation accepts"
                % describe_error(err))
        return None
    if not valid_params(case):
        return "%s:constructor-accepts-invalid" % kind, (
            "constructor accepted parameters that the documented assertions "
            "(rate > 0, low_utilisation <= high_allocation, low_scale < 1 < high_scale) "
            "reject")
    for index, step in enumerate(case["steps"]):
        utilisation, allocation, extra = step[:3]
        pool.utilisation, pool.allocation = utilisation, allocation
        if len(step) > 3:
            # somebody else (an operator, another controller) has moved the demand meanwhile
            pool.demand = step[3]
        if kind == "linear":
            interval = extra
        else:
            pool.supply, interval = extra
        before = pool.demand
        down, up = utilisation < low, allocation > high
        want = "either" if down and up else "down" if down else "up" if up else "none"
        marks = (":u-on-low" if utilisation == low else "") + (
            ":a-on-high" if allocation == high else "")
        try:
            controller.regulate(interval)
        except Exception as err:  # noqa: B902
            return "%s:want-%s:raised-%s%s" % (kind, want, type(err).__name__, marks), (
                "step %d: regulate(%r) raised %s" % (index + 1, interval, describe_error(err)))
        after = pool.demand
        if kind == "linear":
            problem = linear_problem(low, high, case["rate"], utilisation, allocation,
                                     interval, before, after)
        else:
            problem = relsupply_problem(low, high, case["low_scale"], case["high_scale"],
                                        utilisation, allocation, pool.supply, after)
        if problem:
            label = problem[0] if kind == "relsupply" else "want-%s:%s" % (want, problem[0])
            return "%s:%s%s" % (kind, label, marks), (
                "step %d: utilisation=%r (low_utilisation=%r) allocation=%r "
                "(high_allocation=%r) interval=%r supply=%r demand %r -> %r: %s" % (
                    index + 1, utilisation, low, allocation, high, interval, pool.supply,
                    before, after, problem[1]))
    return None


def regulator_nontrivial(case):
    low, high = case["low"], case["high"]
    for utilisation, allocation, *_ in case["steps"]:
        if abs(utilisation - low) < DELTA or abs(allocation - high) < DELTA:
            return True
        if utilisation < low and allocation > high:
            return True
    return False


def regulator_outcome(case):
    low, high = case["low"], case["high"]
    return (case["kind"],) + tuple(
        (u < low, a > high) + (("moved",) if rest[1:] else ())
        for u, a, *rest in case["steps"]) if valid_params(case) else (
        case["kind"], "rejected")


def check_case(acc, case, problem, nontrivial, outcome, steps=1):
    acc.case(nontrivial_key=repr(sorted(case.items())) if nontrivial else None,
             sample=case if nontrivial and acc.evaluations % 4001 == 0 else None)
    acc.transitions += steps
    acc.outcome(outcome)
    if problem:
        acc.violation(problem[0], problem[1], {"case": case})


def regulator_steps(kind, low, high, depth, thorough):
    """All step sequences of ``depth``: the fine grid for single steps, the coarse one for
    longer sequences"""
    if depth == 1:
        us, avs = around(low), around(high)
        if kind == "linear":
            extras = STEP_INTERVALS
        else:
            extras = [(s, i) for s in (0.0, 1.0, 7.5, 100.0) for i in DEEP_INTERVALS]
    else:
        us, avs = coarse(low), coarse(high)
        if kind == "linear":
            extras = DEEP_INTERVALS
        else:
            extras = [(7.5, 1), (100.0, 1)]
    single = [(u, a, x) for u in us for a in avs for x in extras]
    return itertools.product(single, repeat=depth)


def shard_regulator(args):
    kind, low, high, max_depth = args
    acc = Acc()
    if kind == "linear":
        params = [{"rate": rate} for rate in RATES]
        demands = {1: (0.0, 7.5, 100.0), 2: (0.0, 7.5), 3: (7.5,)}
    else:
        params = [{"low_scale": ls, "high_scale": hs}
                  for ls in LOW_SCALES for hs in HIGH_SCALES]
        demands = {1: (0.0, 3.0), 2: (3.0,), 3: (3.0,)}
    for param in params:
        for cinterval in CTOR_INTERVALS:
            base = {"kind": kind, "low": low, "high": high, "cinterval": cinterval, **param}
            if not valid_params(base):
                case = {**base, "demand": 0.0, "steps": []}
                check_case(acc, case, run_regulator_case(case), True, regulator_outcome(case))
                continue
            for depth in range(1, max_depth + 1):
                if depth > 1 and cinterval != CTOR_INTERVALS[0]:
                    continue
                for demand in demands[depth]:
                    for supply in ((0.0, 10.0) if kind == "linear" and depth == 1 else (10.0,)):
                        for steps in regulator_steps(kind, low, high, depth, max_depth > 2):
                            case = {**base, "demand": demand, "supply": supply,
                                    "steps": list(steps)}
                            check_case(acc, case, run_regulator_case(case),
                                       regulator_nontrivial(case), regulator_outcome(case),
                                       depth)
                            if depth >= 2 and cinterval == CTOR_INTERVALS[0]:
                                # the same, with a foreign change of the demand before the
                                # last step (also: the very same step repeated)
                                for outside in (17.0, 0.0):
                                    moved = list(steps[:-1]) + [tuple(steps[-1]) + (outside,)]
                                    case = {**base, "demand": demand, "supply": supply,
                                            "steps": moved}
                                    check_case(acc, case, run_regulator_case(case), True,
                                               regulator_outcome(case), depth)
    return acc


# ---------------------------------------------------------------------------------------
# tables (Stepwise rules, DemandSwitch slaves)


def tables(universe, max_size=3):
    """Every subset of up to ``max_size`` thresholds in every declaration order"""
    for size in range(0, max_size + 1):
        for subset in itertools.combinations(universe, size):
            for order in itertools.permutations(subset):
                yield list(order)


def expected_entry(thresholds, value):
    """Index (declaration order) of the greatest threshold <= value, None for base/default"""
    best = None
    for index, threshold in enumerate(thresholds):
        if threshold <= value and (best is None or threshold > thresholds[best]):
            best = index
    return best


def entry_index(thresholds, value):
    """0 for base/default, else 1 + declaration index of the expected entry"""
    entry = expected_entry(thresholds, value)
    return 0 if entry is None else entry + 1


def table_class(thresholds, value):
    """Coarse class of a selection: is the value on a threshold, is the table sorted"""
    return "%s:%s" % ("on-threshold" if value in thresholds else "off-threshold",
                      order_class(thresholds))


def order_class(thresholds):
    return "declared-sorted" if thresholds == sorted(thresholds) else "declared-unsorted"


def fine_values(universe, low, high):
    values = {low, high}
    for threshold in universe:
        values |= {math.nextafter(threshold, -math.inf), threshold,
                   math.nextafter(threshold, math.inf)}
    return sorted(v for v in values if v >= low)


# -- Stepwise ----------------------------------------------------------------------------

SW_THRESHOLDS = [0.5, 2, 5.0, 9]
SW_ROUTES = ["direct", "add-decorator", "add-call", "partial", "default-interval"]
SW_RETURNS = [None, 0, "number"]
SW_PATTERNS = [("const", 0), ("const", 1), ("const", 2), ("cycle", 0), ("cycle", 1),
               ("cycle", 2)]
SW_FINE = fine_values(SW_THRESHOLDS, 0.0, 100.0)
SW_COARSE = [0.0, 0.5, 2, 5.0, 9, 100.0]


def rule_return(pattern, index):
    """What rule ``index`` (0 = base) returns: None, 0 or a number naming the rule"""
    mode, shift = pattern
    choice = SW_RETURNS[shift if mode == "const" else (index + shift) % 3]
    return 100.0 + index if choice == "number" else choice


def build_stepwise(case, pool, log):
    from cobald.controller.stepwise import Stepwise, UnboundStepwise
    from vlib import trioclock

    def make_rule(index):
        value = rule_return(tuple(case["pattern"]), index)

        def rule(*args, **kwargs):
            log.append((trioclock.now(), "rule", index, args, kwargs))
            return value

        rule.__name__ = "rule%d" % index
        if case.get("rule_objects"):
            # rules are callables, not necessarily functions: objects that are falsy (an
            # empty list of corrections that can be called), or that compare equal
            class RuleObject(list):
                __call__ = staticmethod(rule)
                __name__ = rule.__name__

                def __eq__(self, other):
                    return isinstance(other, list)

                __hash__ = None

            return RuleObject()
        return rule

    base = make_rule(0)
    rules = [(threshold, make_rule(index + 1))
             for index, threshold in enumerate(case["thresholds"])]
    route, interval = case["route"], case["interval"]
    if case.get("earlier") is not None:
        # an earlier controller built from the very same base rule, with another table
        def stray(*args, **kwargs):
            log.append((trioclock.now(), "rule", "stray", args, kwargs))
            return 99.0

        Stepwise(make_state_pool()(3.0, 0.0, 1.0, 1.0), base,
                 *[(threshold, stray) for threshold in case["earlier"]], interval=interval)
    if route == "direct":
        return Stepwise(pool, base, *rules, interval=interval)
    unbound = UnboundStepwise(base)

    def instantiate_early():
        # the skeleton is used while its table is still growing: controllers made from it
        # earlier (same interval, another pool) must not fix the table of later ones
        other = make_state_pool()(3.0, 0.0, 1.0, 1.0)
        if route == "partial":
            unbound.s(interval=interval) >> other
        elif route == "default-interval":
            unbound(other)
        else:
            unbound(other, interval=interval)

    for position, (threshold, rule) in enumerate(rules):
        if position in case.get("instantiate_at", ()):
            instantiate_early()
        if route == "add-decorator":
            assert unbound.add(supply=threshold)(rule) is rule
        else:
            assert unbound.add(rule, supply=threshold) is rule
    if route == "partial":
        return unbound.s(interval=interval) >> pool
    if route == "default-interval":
        return unbound(pool)
    return unbound(pool, interval=interval)


def run_stepwise_case(case):
    """case: route, thresholds (declaration order), pattern, interval, demand, supplies"""
    from vlib import trioclock

    thresholds, interval, supplies = case["thresholds"], case["interval"], case["supplies"]
    if case["route"] == "default-interval":
        interval = 1
    log = []
    pool = trioclock.RecordingPool(log, demand=case["demand"], supply=supplies[0])
    orders = order_class(thresholds)
    try:
        controller = build_stepwise(case, pool, log)
    except Exception as err:  # noqa: B902
        return "stepwise:%s:constructor-raised-%s" % (orders, type(err).__name__), (
            "constructing the controller raised %s" % describe_error(err))
    del log[:]
    actions = [
        ((k - 0.5) * interval, (lambda s=supply: pool.poke(supply=s)))
        for k, supply in enumerate(supplies) if k > 0
    ]
    duration = (len(supplies) - 0.5) * interval
    run = trioclock.run_once(controller.run, actions, duration)
    demand = case["demand"]
    for k, supply in enumerate(supplies):
        instant = k * interval
        sel = ":" + table_class(thresholds, supply)   # selection problems carry the class
        text = "step %d (t=%s, supply=%r, thresholds as declared %r): " % (
            k + 1, instant, supply, thresholds)
        calls = [e for e in log if e[0] == instant and e[1] == "rule"]
        writes = [e for e in log if e[0] == instant and e[1] == "set" and e[3] == "demand"]
        if not calls and (run.exception is not None and run.ended_at == instant):
            return "stepwise:raised-%s" % type(run.exception).__name__ + sel, (
                text + "run() raised %s" % describe_error(run.exception))
        if not calls and run.runaway:
            return "stepwise:runaway", text + run.runaway
        want = expected_entry(thresholds, supply)
        want_index = 0 if want is None else want + 1
        if len(calls) != 1:
            return "stepwise:" + ("no-rule-called" if not calls else "several-rules-called") + sel, (
                text + "rules called: %r, expected exactly rule %d once" % (
                    [c[2] for c in calls], want_index))
        _, _, index, args, kwargs = calls[0]
        if index == "stray":
            return "stepwise:rule-of-another-controller" + sel, (
                text + "a rule of an earlier controller built from the same base rule was "
                "applied, expected rule %d" % want_index)
        if index != want_index:
            return "stepwise:wrong-rule" + sel, text + "rule %d%s was applied, expected rule %d%s" % (
                index, " (threshold %r)" % thresholds[index - 1] if index else " (base)",
                want_index, " (threshold %r)" % thresholds[want] if want_index else " (base)")
        if kwargs or len(args) != 2 or args[0] is not pool or args[1] != interval:
            return "stepwise:rule-arguments", text + "rule called with %r %r, expected (pool, %r)" % (
                args, kwargs, interval)
        value = rule_return(tuple(case["pattern"]), index)
        if value is None:
            if writes:
                return "stepwise:demand-written-on-None", (
                    text + "rule returned None but demand was written: %r" % (
                        [w[4] for w in writes],))
        else:
            demand_now = writes[-1][4] if writes else demand
            if not writes or demand_now != value:
                return "stepwise:demand-not-set-to-%s" % ("zero" if value == 0 else "result"), (
                    text + "rule returned %r but demand is %r" % (value, demand_now))
            demand = demand_now
        if run.exception is not None and run.ended_at == instant:
            return "stepwise:raised-%s" % type(run.exception).__name__ + sel, (
                text + "run() raised %s" % describe_error(run.exception))
    if pool.peek("demand") != demand:
        return "stepwise:demand-changed-outside-steps", "demand ended at %r, expected %r" % (
            pool.peek("demand"), demand)
    return None


def stepwise_sequences(max_depth):
    for supply in SW_FINE:
        yield [supply]
    for depth in range(2, max_depth + 1):
        for supplies in itertools.product(SW_COARSE, repeat=depth):
            yield list(supplies)


def shard_stepwise(args):
    route, thresholds, max_depth = args
    acc = Acc()
    for pattern in SW_PATTERNS:
        for interval in ((0.5,) if route != "default-interval" else (1,)):
            for supplies in stepwise_sequences(max_depth):
                case = {"kind": "stepwise", "route": route, "thresholds": thresholds,
                        "pattern": list(pattern), "interval": interval, "demand": 3.0,
                        "supplies": supplies}
                problem = run_stepwise_case(case)
                nontrivial = bool(thresholds)
                outcome = ("stepwise", len(thresholds), tuple(
                    (entry_index(thresholds, s),
                     rule_return(pattern, entry_index(thresholds, s)) is None)
                    for s in supplies) if len(supplies) < 3 else len(supplies))
                check_case(acc, case, problem, nontrivial, outcome, len(supplies))
                acc.traces += 1
                if len(supplies) == 1:
                    case3 = dict(case, rule_objects=True)
                    check_case(acc, case3, run_stepwise_case(case3), True,
                               ("stepwise-rule-objects", len(thresholds)), 1)
                    acc.traces += 1
                if len(supplies) == 1 and route != "direct" and thresholds:
                    for count in range(1, len(thresholds) + 1):
                        for at in itertools.combinations(range(len(thresholds)), count):
                            case4 = dict(case, instantiate_at=list(at))
                            check_case(acc, case4, run_stepwise_case(case4), True,
                                       ("stepwise-instantiated-early", len(thresholds), at), 1)
                            acc.traces += 1
                if len(supplies) == 1 and route in ("direct", "add-call"):
                    for earlier in ([], [1.0], [2.5, 7.0]):
                        if list(earlier) == list(thresholds):
                            continue
                        case2 = dict(case, earlier=list(earlier))
                        check_case(acc, case2, run_stepwise_case(case2), True,
                                   ("stepwise-after-earlier", len(thresholds), len(earlier)), 1)
                        acc.traces += 1
    return acc


# -- DemandSwitch ------------------------------------------------------------------------

DS_THRESHOLDS = [0, 2, 5.0, 9.5]
DS_FINE = fine_values(DS_THRESHOLDS, -1.0, 100.0)
DS_COARSE = [-1.0, 0, 2, 5.0, 9.5, 100.0]


def run_switch_case(case):
    """case: thresholds (declaration order), targets (default first; True = constructed
    with the switch's target, False = None), steps [(demand, interval)...]"""
    from cobald.controller.switch import DemandSwitch

    thresholds, targets = case["thresholds"], case["targets"]
    pool = state_pool(0.0, 0.0, 1.0, 1.0)
    twin = None
    if "equal" in targets:
        # pools that compare by value: a controller bound to an *equal* pool passes the
        # constructor's check, and still every controller acts on the switch's own target
        if "eqpool" not in _CLASSES:
            _CLASSES["eqpool"] = type("EqualPool", (make_state_pool(),), {
                "__eq__": lambda self, other: type(other) is type(self),
                "__hash__": lambda self: 7})
        pool = _CLASSES["eqpool"](0.0, 0.0, 1.0, 1.0)
        twin = _CLASSES["eqpool"](0.0, 0.0, 1.0, 1.0)
    log = []
    controllers = [recording_controller(
        log, index, twin if own == "equal" else pool if own else None)
        for index, own in enumerate(targets)]
    slaves = []
    for threshold, controller in zip(thresholds, controllers[1:]):
        slaves += [threshold, controller]
    orders = order_class(thresholds)
    try:
        switch = DemandSwitch(pool, controllers[0], *slaves, interval=case["cinterval"])
    except Exception as err:  # noqa: B902
        return "switch:%s:constructor-raised-%s" % (orders, type(err).__name__), (
            "constructing the switch raised %s" % describe_error(err))
    for step, (demand, interval) in enumerate(case["steps"]):
        pool.demand = demand
        pool.writes = 0
        del log[:]
        sel = ":" + table_class(thresholds, demand)
        text = "step %d (demand=%r, thresholds as declared %r): " % (
            step + 1, demand, thresholds)
        try:
            switch.regulate(interval)
        except Exception as err:  # noqa: B902
            return "switch:raised-%s" % type(err).__name__ + sel, (
                text + "regulate(%r) raised %s" % (interval, describe_error(err)))
        want = expected_entry(thresholds, demand)
        want_index = 0 if want is None else want + 1
        if len(log) != 1:
            return "switch:" + ("no-controller-called" if not log else "several-controllers-called") + sel, (
                text + "controllers called: %r, expected exactly controller %d once" % (
                    [entry[0] for entry in log], want_index))
        index, got_interval, target = log[0]
        if index != want_index:
            return "switch:wrong-controller" + sel, (
                text + "controller %d%s was used, expected controller %d%s" % (
                    index, " (threshold %r)" % thresholds[index - 1] if index else " (default)",
                    want_index,
                    " (threshold %r)" % thresholds[want] if want_index else " (default)"))
        if target is not pool:
            return "switch:controller-target-%s" % (
                "equal" if targets[index] == "equal" else "own" if targets[index] else "None"), (
                text + "controller %d acted on %r, not on the switch's target" % (index, target))
        if got_interval != interval:
            return "switch:controller-interval", (
                text + "controller got interval %r, the step was regulate(%r)" % (
                    got_interval, interval))
        if pool.writes or pool.demand != demand:
            return "switch:switch-wrote-demand", (
                text + "demand is %r although the chosen controller did not touch it"
                % pool.demand)
    for index, controller in enumerate(controllers):
        if controller.target is not pool:
            return "switch:controller-target-%s" % (
                "equal" if targets[index] == "equal" else "own" if targets[index] else "None"), (
                "controller %d has target %r, not the switch's target" % (
                    index, controller.target))
    return None


def switch_sequences(max_depth):
    for demand in DS_FINE:
        for interval in DEEP_INTERVALS:
            yield [(demand, interval)]
    single = [(d, i) for d in DS_COARSE for i in DEEP_INTERVALS]
    for depth in range(2, max_depth + 1):
        for steps in itertools.product(single, repeat=depth):
            yield list(steps)


def shard_switch(args):
    thresholds, max_depth = args
    acc = Acc()
    for targets in itertools.product([True, False, "equal"], repeat=len(thresholds) + 1):
        if "equal" in targets and len(thresholds) > 2:
            continue
        for steps in switch_sequences(max_depth if "equal" not in targets else 1):
            case = {"kind": "switch", "thresholds": thresholds, "targets": list(targets),
                    "cinterval": 1, "steps": steps}
            problem = run_switch_case(case)
            outcome = ("switch", len(thresholds), tuple(
                expected_entry(thresholds, d) for d, _ in steps) if len(steps) < 3
                else len(steps))
            check_case(acc, case, problem, bool(thresholds), outcome, len(steps))
    return acc


# ---------------------------------------------------------------------------------------


def shard(args):
    kind = args[0]
    if kind in ("linear", "relsupply"):
        return shard_regulator(args)
    if kind == "stepwise":
        return shard_stepwise(args[1:])
    return shard_switch(args[1:])


def run(ctx):
    depth = 2 if ctx.quick else 3
    shards = []
    for kind in ("linear", "relsupply"):
        for low in LOWS:
            for high in HIGHS:
                shards.append((kind, low, high, depth))
    for route in SW_ROUTES:
        for thresholds in tables(SW_THRESHOLDS):
            shards.append(("stepwise", route, thresholds, depth))
    for thresholds in tables(DS_THRESHOLDS):
        shards.append(("switch", thresholds, depth))
    ctx.pmap(shard, shards, chunksize=2)
    ctx.meta.update(
        rule="Linear/RelativeSupply: full product of the constructor grid (rejections "
             "compared with the documented conditions) x demand x every sequence of 1..%d "
             "regulate steps (single steps: utilisation/allocation in {0, threshold-1/8, "
             "float before, threshold, float after, threshold+1/8, 1}, longer sequences: "
             "{threshold-1/8, threshold, threshold+1/8}) x intervals/supplies; Stepwise: "
             "every table of 0..3 of the thresholds %r in every declaration order x 5 "
             "construction routes x 6 return patterns (None / 0 / number per rule) x supply "
             "sequences (single: every threshold and both float neighbours, 0, 100; longer: "
             "%r), one real run() iteration per step under the virtual clock; DemandSwitch: "
             "every table of 0..3 of %r in every order x every None/own target assignment "
             "x demand sequences. A case is non-trivial when a value lies on or next to a "
             "threshold or both Linear conditions hold (regulators) / the table is not "
             "empty (tables); distinct by the full case"
             % (depth, SW_THRESHOLDS, SW_COARSE, DS_THRESHOLDS),
        exhaustive=True,
        bounds={"sequence_length": depth, "low_utilisation": LOWS, "high_allocation": HIGHS,
                "rate": RATES, "regulate_interval": STEP_INTERVALS,
                "low_scale": LOW_SCALES, "high_scale": HIGH_SCALES,
                "stepwise_thresholds": SW_THRESHOLDS, "switch_thresholds": DS_THRESHOLDS,
                "table_size": 3},
    )
    ctx.assumptions += [
        "supply finite and >= 0, thresholds of a Stepwise table > 0, finite and distinct "
        "(RangeSelector documents no range below 0; a threshold 0 or inf is rejected as "
        "duplicate by the constructor); DemandSwitch thresholds distinct",
        "LinearController: when utilisation < low_utilisation and allocation > "
        "high_allocation both hold, only |change| <= rate x interval is required (the "
        "statement gives no priority)",
        "RelativeSupplyController: when both conditions hold either scale is accepted; "
        "products are compared with relative tolerance 1e-12",
        "rate, interval and demand are dyadic rationals, so 'exactly rate x interval' is "
        "decided exactly (no floating point rounding in demand -/+ rate*interval)",
        "constructor acceptance is compared with the conditions asserted and pinned by the "
        "repository's tests: rate > 0, low_utilisation <= high_allocation, low_scale < 1 < "
        "high_scale",
        "Stepwise has no regulate(); a step is one iteration of run() at virtual time k x "
        "interval, the environment changes supply at (k - 1/2) x interval",
    ]


def replay(data):
    case = data["case"]
    kind = case["kind"]
    if kind in ("linear", "relsupply"):
        case = {**case, "steps": [
            (u, a, tuple(x) if isinstance(x, list) else x) for u, a, x in case["steps"]]}
        problem = run_regulator_case(case)
    elif kind == "stepwise":
        problem = run_stepwise_case(case)
    else:
        problem = run_switch_case(case)
    return "%s: %s" % problem if problem else None
