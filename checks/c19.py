"""
C19 - nested ``__type__`` mappings translate bottom-up with exact error locations.

Bounded-exhaustive enumeration (smallscope): every tree of mappings, lists and scalars up
to a node count, every choice of which list child of a mapping is its ``__args__``, every
assignment of {no ``__type__``, one of eight factories} to the mappings; each handed to the
real ``Translator().translate_hierarchy`` and compared with an independent recursive
evaluator, with the global call log of the factories (``vlib.c19_factories``) and - when a
factory cannot be resolved or called - with the path built from keys and indices.
"""
import collections
import functools
import itertools
import re

from vlib.core import Acc

KEYS = "abcdefgh"
#: the other keys a configuration may use: names with leading / trailing underscores as
#: keyword items of a typed mapping, non-string keys in plain mappings (str() of each is
#: unambiguous inside a location)
ODD_TYPED_KEYS = ("__leaf__", "factory", "_c", "mapping", "__e__", "where", "kwargs", "cls")
ODD_PLAIN_KEYS = (1, None, False, "__p__", 7, 12, "q", "__r")
SCALARS = (1, "text", None, 2.5, True, "")
FACTORY_MODULE = "vlib.c19_factories"

OK_KINDS = ("cls", "fn", "attr")
FAILING_KINDS = ("mod", "raise", "noattr", "nomod", "nonstr")
FULL = (None,) + OK_KINDS + FAILING_KINDS
#: reduced alphabet: "OK" / "BAD" are resolved by the position of the mapping
REDUCED = (None, "OK", "raise", "noattr", "nomod", "BAD")


def _factory_name(kind, ident):
    return {
        "cls": "%s.RecClass%d" % (FACTORY_MODULE, ident),          # recording class
        "fn": "%s.rec_function_%d" % (FACTORY_MODULE, ident),      # recording function
        "attr": "%s.Holder.Inner.make_%d" % (FACTORY_MODULE, ident),  # nested attribute
        "mod": FACTORY_MODULE,                                     # a module: not callable
        "raise": "%s.raising_%d" % (FACTORY_MODULE, ident),        # called, raises
        "noattr": "%s.missing_%d" % (FACTORY_MODULE, ident),       # no such attribute
        "nomod": "c19_no_such_module_%d.thing" % ident,            # no such module
        "nonstr": None,                # not a name at all (an empty YAML value)
    }[kind]


FACTORY_NAMES = {(kind, ident): _factory_name(kind, ident)
                 for kind in OK_KINDS + FAILING_KINDS for ident in range(8)}


def factory_name(kind, ident):
    """The ``__type__`` value of the mapping number ``ident`` for a kind of factory"""
    return FACTORY_NAMES[kind, ident]


KIND_OF_NAME = {
    factory_name(kind, ident): (kind, ident)
    for kind in OK_KINDS + FAILING_KINDS if kind not in ("mod", "nonstr")
    for ident in range(8)
}
KIND_OF_NAME[FACTORY_MODULE] = ("mod", None)


# ---------------------------------------------------------------------------------------
# tree shapes:  ("s",) | ("l", children)
#               | ("m", index of the __args__ child or None, children)


@functools.lru_cache(None)
def forests(size):
    """Every sequence of trees with ``size`` nodes in total"""
    if size == 0:
        return ((),)
    out = []
    for first in range(1, size + 1):
        for tree in trees(first):
            for rest in forests(size - first):
                out.append((tree,) + rest)
    return tuple(out)


@functools.lru_cache(None)
def trees(size):
    """Every tree with exactly ``size`` nodes; scalars, then lists, then mappings"""
    out = []
    if size == 1:
        out.append(("s",))
    for children in forests(size - 1):
        out.append(("l", children))
    for children in forests(size - 1):
        out.append(("m", None, children))
        for index, child in enumerate(children):
            if child[0] == "l":
                out.append(("m", index, children))
    return tuple(out)


def count_mappings(shape):
    if shape[0] == "s":
        return 0
    return (shape[0] == "m") + sum(count_mappings(child) for child in shape[-1])


def build(shape, marks, odd=False):
    """The configuration structure of a shape; ``marks[i]`` is the factory kind (or None)
    of the i-th mapping in pre-order; scalars are numbered through ``SCALARS``"""
    counters = [0, 0]
    if odd:
        def rec_odd(node):
            if node[0] == "s":
                counters[0] += 1
                return SCALARS[(counters[0] - 1) % len(SCALARS)]
            if node[0] == "l":
                return [rec_odd(child) for child in node[1]]
            ident = counters[1]
            counters[1] += 1
            out = {}
            keys = ODD_PLAIN_KEYS
            if marks[ident] is not None:
                out["__type__"] = factory_name(marks[ident], ident)
                keys = ODD_TYPED_KEYS
            for index, child in enumerate(node[2]):
                out["__args__" if index == node[1] and marks[ident] is not None
                    else keys[index]] = rec_odd(child)
            # mappings that are dicts of another make (what a loader or a Python
            # configuration may hand over): they are mappings all the same
            if ident % 3 == 1:
                return collections.defaultdict(list, out)
            if ident % 3 == 2:
                return OwnInitDict(out)
            return out

        return rec_odd(shape)

    def rec(node):
        if node[0] == "s":
            counters[0] += 1
            return SCALARS[(counters[0] - 1) % len(SCALARS)]
        if node[0] == "l":
            return [rec(child) for child in node[1]]
        ident = counters[1]
        counters[1] += 1
        out = {}
        if marks[ident] is not None:
            out["__type__"] = factory_name(marks[ident], ident)
        for index, child in enumerate(node[2]):
            out["__args__" if index == node[1] else KEYS[index]] = rec(child)
        return out

    return rec(shape)


class OwnInitDict(dict):
    """A dict subclass whose constructor does not take an iterable of pairs"""

    def __init__(self, data, note="made by the harness"):
        super().__init__(data)
        self.note = note


def clone(tree):
    if isinstance(tree, OwnInitDict):
        return OwnInitDict({key: clone(value) for key, value in tree.items()})
    if isinstance(tree, collections.defaultdict):
        return collections.defaultdict(
            tree.default_factory, {key: clone(value) for key, value in tree.items()})
    if isinstance(tree, dict):
        return {key: clone(value) for key, value in tree.items()}
    if isinstance(tree, list):
        return [clone(value) for value in tree]
    return tree


# ---------------------------------------------------------------------------------------
# reference: written from the property statement
#
# * plain data is unchanged;
# * a mapping with __type__ becomes factory(*__args__, **remaining items), children first;
# * the only promised order: an element is constructed after everything below it, and
#   within a list everything in a later item before anything in an earlier item
#   (nothing is promised about the items of one mapping);
# * a failure is located by the keys and indices that lead to the failing mapping.


def collect(tree, path, out):
    """[(path, kind, ident)] of all mappings with __type__, any order"""
    if isinstance(tree, dict):
        if "__type__" in tree:
            name = tree["__type__"]
            kind, ident = KIND_OF_NAME[name] if isinstance(name, str) else ("nonstr", None)
            out.append((path, kind, ident))
        for key, value in tree.items():
            collect(value, path + (("key", key),), out)
    elif isinstance(tree, list):
        for index, value in enumerate(tree):
            collect(value, path + (("index", index),), out)
    return out


def node_at(tree, path):
    for _step, where in path:
        tree = tree[where]
    return tree


def evaluate(tree):
    """Value of a subtree in which every factory works"""
    from vlib.c19_factories import Built

    if isinstance(tree, dict):
        if "__type__" in tree:
            kind, ident = KIND_OF_NAME[tree["__type__"]]
            args = tuple(evaluate(item) for item in tree.get("__args__", []))
            kwargs = {key: evaluate(value) for key, value in tree.items()
                      if key not in ("__type__", "__args__")}
            return Built(kind, ident, args, kwargs)
        return {key: evaluate(value) for key, value in tree.items()}
    if isinstance(tree, list):
        return [evaluate(value) for value in tree]
    return tree


def same(got, want):
    """Strict structural equality (True is not 1, a tuple is not a list)"""
    from vlib.c19_factories import Built

    if isinstance(want, Built):
        return (isinstance(got, Built) and got.kind == want.kind
                and got.ident == want.ident and same(got.args, want.args)
                and same(got.kwargs, want.kwargs))
    if isinstance(want, dict) and isinstance(got, dict):
        # which kind of dict a plain mapping comes back as is not part of the statement
        return got.keys() == want.keys() and all(same(got[k], want[k]) for k in want)
    if type(got) is not type(want):
        return False
    if isinstance(want, (list, tuple)):
        return len(got) == len(want) and all(same(g, w) for g, w in zip(got, want))
    return got == want


def precedes(first, second):
    """Must the element at path ``first`` be complete before the one at ``second`` is
    constructed?  'child' / 'later-list-item' / None"""
    if len(first) > len(second) and first[: len(second)] == second:
        return "child"
    for one, two in zip(first, second):
        if one != two:
            if one[0] == "index" and two[0] == "index" and one[1] > two[1]:
                return "later-list-item"
            return None
    return None


TOKEN = re.compile(r"\.([A-Za-z_0-9][A-Za-z0-9_]*)|\[([0-9]+)\]")


def as_written(path):
    """A path as a location spells it: keys by their str()"""
    return tuple((step, str(where) if step == "key" else where) for step, where in path)


def tokenise(where):
    """'.a[0].b' -> (("key","a"), ("index",0), ("key","b")); None if it is no such path"""
    if not isinstance(where, str):
        return None
    position, tokens = 0, []
    while position < len(where):
        match = TOKEN.match(where, position)
        if match is None:
            return None
        if match.group(1) is not None:
            tokens.append(("key", match.group(1)))
        else:
            tokens.append(("index", int(match.group(2))))
        position = match.end()
    return tuple(tokens)


def show(path):
    return "".join(
        ".%s" % w if step == "key" else "[%d]" % w for step, w in path) or "<root>"


# ---------------------------------------------------------------------------------------
# one case


def run_case(structure):
    """(key, description) or None for one configuration structure"""
    from cobald.daemon.config.mapping import Translator, ConfigurationError
    import vlib.c19_factories as factories

    given = clone(structure)
    del factories.LOG[:]
    result = error = None
    try:
        result = Translator().translate_hierarchy(given)
    except Exception as err:  # noqa: B902
        error = err
    log = list(factories.LOG)
    verdict = judge(structure, result, error, log, ConfigurationError)
    if verdict is not None:
        return verdict
    # the hierarchy that was translated is still the hierarchy: translating is not allowed to
    # consume its input (a second translation - or a sub-tree shared through a YAML alias -
    # must again call every factory)
    if not same_plain(given, structure):
        return ("input-modified", "translate_hierarchy changed its input from %r to %r"
                % (structure, given))
    del factories.LOG[:]
    again = None
    try:
        Translator().translate_hierarchy(given)
    except Exception as err:  # noqa: B902
        again = err
    if [entry[:2] for entry in factories.LOG] != [entry[:2] for entry in log] or \
            (again is None) != (error is None):
        return ("second-translation-differs",
                "translating the same hierarchy again called %r, the first time %r"
                % ([entry[:2] for entry in factories.LOG], [entry[:2] for entry in log]))
    if not any(entry[0] in OK_KINDS for entry in log):
        return None
    # the name is what is configured, not the object it happened to name the first time: with
    # the factory names bound to other callables, a translation calls those
    del factories.LOG[:]
    with factories.rebound():
        try:
            Translator().translate_hierarchy(given)
        except Exception:  # noqa: B902
            pass
    want = [("re-" + entry[0] if entry[0] in OK_KINDS else entry[0], entry[1])
            for entry in log]
    if [entry[:2] for entry in factories.LOG] != want:
        return ("stale-factory-after-rebinding",
                "with the factory names bound to new callables, translating called %r, "
                "expected %r" % ([entry[:2] for entry in factories.LOG], want))
    return None


def same_plain(got, want):
    """Structural equality of two configuration hierarchies (type-faithful)"""
    if type(got) is not type(want):
        return False
    if isinstance(want, dict):
        return list(got) == list(want) and all(same_plain(got[k], want[k]) for k in want)
    if isinstance(want, list):
        return len(got) == len(want) and all(same_plain(a, b) for a, b in zip(got, want))
    return got == want or (got != got and want != want)


# ---------------------------------------------------------------------------------------
# pipelines: the same location rule through the pipeline translator (load_pipeline)

PIPE_FAULTS = ("raise", "noattr", "nomod", "child-raise", "child-list-raise", "child-ok",
               "child-list-ok")


def pipeline_case(size, position, fault, forms):
    """A pipeline of ``size`` __type__ elements, the one at ``position`` faulty;
    returns (content, expected path tokens)"""
    content = []
    expected = None
    for index in range(size):
        element = {"__type__": factory_name("fn", index), "a": index}
        if index == position:
            if fault in ("raise", "noattr", "nomod"):
                element["__type__"] = factory_name(fault, index)
                expected = [("index", index)]
            elif fault == "child-ok":
                element["b"] = {"__type__": factory_name("fn", 7), "x": 1}
            elif fault == "child-list-ok":
                element["b"] = [1, {"c": {"__type__": factory_name("fn", 7), "x": 1}}]
            elif fault == "child-raise":
                element["b"] = {"__type__": factory_name("raise", 7)}
                expected = [("index", index), ("key", "b")]
            else:
                element["b"] = [1, {"c": {"__type__": factory_name("raise", 7)}}]
                expected = [("index", index), ("key", "b"), ("index", 1), ("key", "c")]
        content.append(element)
    return content, expected


def run_pipeline_case(case):
    from cobald.daemon.config.mapping import ConfigurationError
    from cobald.daemon.core.config import load_pipeline
    import vlib.c19_factories as factories

    content, expected = pipeline_case(*case)
    del factories.LOG[:]
    if expected is None:
        # a valid pipeline with a nested __type__ argument: it receives its own items only
        try:
            load_pipeline(clone(content))
        except Exception as err:  # noqa: B902
            return ("pipeline:valid-pipeline-rejected",
                    "pipeline %r raised %s: %s" % (content, type(err).__name__, err))
        nested = [entry for entry in factories.LOG if entry[:2] == ("fn", 7)]
        if len(nested) != 1 or nested[0][2] != () or nested[0][3] != {"x": 1}:
            return ("pipeline:nested-argument-call",
                    "pipeline %r: the nested __type__ argument was constructed as %r, expected "
                    "exactly once with kwargs {'x': 1}" % (content, nested))
        return None
    try:
        load_pipeline(clone(content))
    except ConfigurationError as err:
        got = tokenise(err.where) if isinstance(err.where, str) else None
        if got != tuple(expected):
            return ("pipeline:where:wrong-location",
                    "pipeline %r: the failing element is at %s, reported where=%r"
                    % (content, show(expected), err.where))
        return None
    except Exception as err:  # noqa: B902
        return ("pipeline:failure:not-a-configuration-error",
                "pipeline %r raised %s: %s" % (content, type(err).__name__, err))
    return ("pipeline:failure-expected:no-error", "pipeline %r loaded" % (content,))


def shard_pipeline(args):
    (size,) = args
    acc = Acc()
    for position in range(size):
        for fault in PIPE_FAULTS:
            case = (size, position, fault, None)
            verdict = run_pipeline_case(case)
            acc.case(nontrivial_key=repr(case), sample=list(case) if position == 1 else None)
            acc.outcome(("pipeline", verdict is None))
            if verdict is not None:
                acc.violation(verdict[0], verdict[1], {"pipeline": list(case)})
    return acc


def judge(structure, result, error, log, error_type):
    elements = collect(structure, (), [])
    failing = [element for element in elements if element[1] in FAILING_KINDS]
    callable_elements = {(kind, ident): (path, kind, ident)
                         for path, kind, ident in elements if ident is not None}
    # -- the call log: attributed, at most once, in a permitted order, exact arguments
    position = {}
    for index, (kind, ident, args, kwargs) in enumerate(log):
        element = callable_elements.get((kind, ident))
        if element is None or kind in ("noattr", "nomod"):
            return ("log:unknown-call",
                    "call of %s %r, which no mapping names" % (kind, ident))
        path = element[0]
        if path in position:
            return ("log:factory-called-twice",
                    "the factory of %s was called more than once" % show(path))
        position[path] = index
        for other_path, other_kind, _ in elements:
            relation = precedes(other_path, path)
            if relation and (other_path not in position or other_kind in FAILING_KINDS):
                state = ("fails" if other_kind in FAILING_KINDS
                         else "was not constructed yet")
                if relation == "child":
                    return ("order:parent-constructed-before-child",
                            "%s was constructed although %s below it %s"
                            % (show(path), show(other_path), state))
                return ("order:list-item-constructed-before-later-item",
                        "%s was constructed although %s in a later item of the same list %s"
                        % (show(path), show(other_path), state))
        node = node_at(structure, path)
        want_args = tuple(evaluate(item) for item in node.get("__args__", []))
        want_kwargs = {key: evaluate(value) for key, value in node.items()
                       if key not in ("__type__", "__args__")}
        if not same(tuple(args), want_args) or not same(kwargs, want_kwargs):
            return ("log:arguments-differ",
                    "%s was called with *%r **%r, expected *%r **%r"
                    % (show(path), args, kwargs, want_args, want_kwargs))
    if not failing:
        if error is not None:
            return ("success-expected:raised-%s" % type(error).__name__,
                    "every factory works, but %s: %s" % (type(error).__name__, error))
        for path, _kind, _ident in elements:
            if path not in position:
                return ("log:factory-not-called",
                        "the factory of %s was never called" % show(path))
        want = evaluate(structure)
        if not same(result, want):
            return ("result:differs" if elements else "result:plain-data-changed",
                    "result %r, expected %r" % (result, want))
        return None
    # -- some factory cannot be resolved or called
    if error is None:
        return ("failure-expected:no-error",
                "failing factories at %s, but the result is %r"
                % ([show(f[0]) for f in failing], result))
    if not isinstance(error, error_type):
        return ("failure-expected:raised-%s" % type(error).__name__,
                "%s instead of ConfigurationError: %s" % (type(error).__name__, error))
    where = getattr(error, "where", None)
    tokens = tokenise(where)
    if tokens is None:
        return ("where:not-a-path",
                "ConfigurationError.where is %r; failing factories at %s"
                % (where, [show(f[0]) for f in failing]))
    failing_raw = failing
    failing = [(as_written(f[0]),) + tuple(f[1:]) for f in failing]
    culprit = [raw for raw, f in zip(failing_raw, failing) if f[0] == tokens]
    if not culprit:
        what = "ConfigurationError.where is %r; failing factories at %s" % (
            where, [show(f[0]) for f in failing])
        if any(len(f[0]) > len(tokens) and f[0][: len(tokens)] == tokens for f in failing):
            return ("where:outer-location", what)
        if any(len(f[0]) == len(tokens) and all(
                a == b or (a[0] == b[0] == "index") for a, b in zip(f[0], tokens))
                for f in failing):
            return ("where:wrong-index", what)
        return ("where:not-the-failing-element", what)
    path, kind, _ident = culprit[0]
    for other_path, other_kind, _ in elements:
        relation = precedes(other_path, path)
        if relation and other_kind in FAILING_KINDS:
            return ("failure:not-the-first-failing-element",
                    "the error names %s, but the failing %s (%s) comes earlier in the "
                    "documented order" % (show(path), show(other_path), relation))
    for other_path, other_kind, _ in elements:
        relation = precedes(other_path, path)
        if relation and other_path not in position:
            return ("failure:reported-before-predecessors-constructed",
                    "the error names %s, but %s (%s) was never constructed"
                    % (show(path), show(other_path), relation))
    if kind == "raise" and path not in position:
        return ("failure:raising-factory-not-called",
                "the error names %s, whose factory was never called" % show(path))
    return None


# ---------------------------------------------------------------------------------------
# enumeration


def mark_vectors(count, alphabet):
    for vector in itertools.product(alphabet, repeat=count):
        yield tuple(
            OK_KINDS[index % 3] if mark == "OK"
            else ("mod", "nonstr")[index % 2] if mark == "BAD" else mark
            for index, mark in enumerate(vector))


def shard(args):
    size, part, parts, reduced = args[:4]
    odd = len(args) > 4 and args[4]
    acc = Acc()
    alphabet = REDUCED if reduced else FULL
    for index, shape in enumerate(trees(size)):
        if index % parts != part:
            continue
        for marks in mark_vectors(count_mappings(shape), alphabet):
            structure = build(shape, marks, odd)
            verdict = run_case(structure)
            if odd:
                marked = any(mark is not None for mark in marks)
                acc.case(nontrivial_key=repr(structure) if marked else None,
                         sample=None)
                acc.outcome(("odd-keys", verdict is None))
                if verdict is not None:
                    # keys that JSON cannot hold: the replay rebuilds the structure
                    acc.violation("odd-keys:" + verdict[0], verdict[1],
                                  {"shape": shape, "marks": list(marks), "odd": True})
                continue
            marked = any(mark is not None for mark in marks)
            acc.case(nontrivial_key=repr(structure) if marked else None,
                     sample=structure if marked and acc.evaluations % 9973 == 41 else None)
            acc.outcome((sum(mark in OK_KINDS for mark in marks),
                         sum(mark in FAILING_KINDS for mark in marks), verdict is None))
            if verdict is not None:
                acc.violation(verdict[0], verdict[1], {"tree": structure})
    return acc


def run(ctx):
    full_size = 5
    reduced_size = None if ctx.quick else 6
    # smaller trees first, so that the recorded counterexamples are small ones
    ctx.pmap(shard, [(size, 0, 1, False) for size in (1, 2, 3)])
    ctx.pmap(shard, [(4, part, 16, False) for part in range(16)])
    ctx.pmap(shard, [(size, 0, 1, False, True) for size in (1, 2, 3)]
             + [(4, part, 16, False, True) for part in range(16)])
    ctx.pmap(shard, [(5, part, 96, False) for part in range(96)])
    ctx.pmap(shard_pipeline, [(size,) for size in range(1, 6 if ctx.quick else 8)])
    if reduced_size:
        ctx.pmap(shard, [(reduced_size, part, 256, True) for part in range(256)])
    ctx.meta.update(
        rule="every ordered tree with <= %d nodes over {scalar, list, mapping} (also empty "
             "lists / mappings), every choice of one list child of a mapping as its "
             "__args__ (or none), in order of size; x every assignment of %r to the "
             "mappings (None: no __type__)%s. A case is non-trivial when at least one "
             "mapping has a __type__; distinct by the structure"
             % (full_size, list(FULL),
                "" if ctx.quick else
                "; trees with %d nodes x every assignment of %r (OK: cls/fn/attr, BAD: "
                "mod/nonstr, chosen by the position of the mapping)"
                % (reduced_size, list(REDUCED))),
        exhaustive=True,
        bounds={"max_nodes_full_alphabet": full_size,
                "max_nodes_reduced_alphabet": reduced_size,
                "factories": list(FULL[1:]), "scalars": list(SCALARS)},
    )
    ctx.assumptions += [
        "translating does not consume its input: the hierarchy is unchanged afterwards and a "
        "second translation calls the same factories (sub-trees shared through YAML aliases "
        "depend on this)",
        "pipelines: __type__ elements with a failing element / nested child at every "
        "position, through load_pipeline; only the reported location is compared",
        "mapping keys are simple identifiers (a key containing '.' or '[' makes the "
        "reported path ambiguous by construction); __args__ is a list; trees with <= 4 "
        "nodes additionally with the keys %r as keyword items of typed mappings and %r as "
        "keys of plain mappings (non-string keys cannot be keyword arguments)"
        % (ODD_TYPED_KEYS, ODD_PLAIN_KEYS),
        "no order is demanded between the items of one mapping: only 'children before "
        "parents' and 'within a list, later items before earlier ones'; with several "
        "failing factories the reported one must have no failing factory before it in that "
        "partial order",
        "the __type__ value is a scalar (a name or a non-string), it is not counted as a "
        "node; one factory name per mapping so that calls can be attributed",
    ]


def replay(data):
    if "pipeline" in data:
        verdict = run_pipeline_case(tuple(data["pipeline"]))
        return None if verdict is None else "%s: %s" % verdict
    if data.get("odd"):
        def tuples(node):
            return tuple(tuples(item) if isinstance(item, list) else item for item in node)

        verdict = run_case(build(tuples(data["shape"]), data["marks"], True))
    else:
        verdict = run_case(data["tree"])
    return None if verdict is None else "%s: %s" % verdict
