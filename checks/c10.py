"""
C10 - execute hands the payload's outcome to the caller and leaves the runtime alone.

Engine: cosched.  Target flavour x calling context x outcome x arguments x sequences of
1..3 calls, next to one sleeping bystander per flavour, under every schedule within the
deviation bound.
"""
import itertools

from vlib.cosched import harness as H
from vlib.cosched import kit as K
from vlib.cosched.sched import Abort

FLAVOURS = ["asyncio", "trio", "threading"]
CONTEXTS = ["outside", "threading", "asyncio", "trio"]
OUTCOMES = [("return", "None"), ("return", "0"), ("return", "''"), ("return", "[]"),
            ("return", "object"), ("return", "exc-instance"), ("return", "exc-class"),
            ("raise", "LookupError"), ("raise", "UserError"),
            ("raise", "StopAsyncIteration"), ("raise", "TimeoutError"), ("raise", "UserTimeout"),
            ("raise", "KeyError"), ("raise", "RuntimeError"), ("raise", "TypeError"),
            ("raise", "AttributeError"), ("raise", "cf.CancelledError"),
            ("raise", "cf.InvalidStateError"), ("raise", "asyncio.InvalidStateError"),
            ("raise", "FalsyError"), ("raise", "UnprintableError")]
ARGS = [((), {}), ((1,), {"k": 2}), ((1, "a"), {}), ((), {"k": 2, "m": None})]


class Scenario:
    def __init__(self, params):
        self.params = params
        self.kit = None
        self.outcome = None
        self.calls = []

    def main(self, env):
        from cobald.daemon.runners.service import ServiceRunner

        params = self.params
        runtime = ServiceRunner(accept_delay=1)
        kit = self.kit = K.Kit(env, runtime)
        for flavour in FLAVOURS:
            # the coroutine bystanders have a scheduling point in the middle of every step:
            # an execute may arrive while the loop thread is inside another task's step
            kit.submit({"id": "by-" + flavour, "flavour": flavour,
                        "steps": [("forever", 0.4) if flavour == "threading"
                                  else ("forever-sections", 0.4)]})
        context = params["context"]
        steps = []
        for index, (flavour, outcome, args_index, duration) in enumerate(params["calls"]):
            body = ([("sleep", duration)] if duration else []) + \
                ([("wait-weak", "waiters")] if params.get("weak_wait") else []) + \
                ([] if tuple(outcome) == ("return", "None") else [tuple(outcome)])
            desc = {"id": "x%d" % index, "flavour": flavour, "steps": body,
                    "args": ARGS[args_index][0], "kwargs": ARGS[args_index][1],
                    "plain": bool(params.get("plain"))}
            self.calls.append(desc)
            steps.append(("execute", desc))

        if params.get("weak_wait"):
            # the payload waits for a reply; the replier only knows the future weakly, and
            # runs the garbage collector before it replies
            def release(_env):
                import gc

                gc.collect()
                for future in list(env.shared.get("waiters", ())):
                    future.get_loop().call_soon_threadsafe(future.set_result, None)

            env.shared["release"] = release
            kit.submit({"id": "replier", "flavour": "threading",
                        "steps": [("sleep", 1.0), ("call", "release"), ("block",)]})

        def caller():
            runtime.running.wait()
            env.sleep(0.5)
            for _op, desc in steps:
                kit.submit(desc, "execute")
            env.log("calls-done")

        if params.get("many"):
            # many threads execute thread payloads that wait for each other: every one of
            # them has to be running at the same time
            count = params["many"]

            def many_caller(number):
                runtime.running.wait()
                env.sleep(0.5)
                desc = {"id": "x%d" % number, "flavour": "threading",
                        "steps": [("barrier", "everyone", count), ("return", "object")],
                        "args": (), "kwargs": {}}
                self.calls.append(desc)
                kit.submit(desc, "execute")
                if number == 0:
                    env.log("calls-done")

            for number in range(count):
                env.spawn(many_caller, "caller%d" % number, number)
        elif params.get("twin"):
            # two outside threads execute the very same callable at the same time
            desc = self.calls[0]
            shared = kit.payload(desc)

            def twin_caller():
                runtime.running.wait()
                env.sleep(0.5)
                kit.submit(desc, "execute", payload=shared)
                env.log("calls-done")

            env.spawn(twin_caller, "caller")
            env.spawn(twin_caller, "caller2")
        elif context == "outside":
            env.spawn(caller, "caller")
        else:
            tail = ("block",) if context == "threading" else ("forever", 0.4)
            at = params.get("call_at", 0.5)
            kit.submit({"id": "caller", "flavour": context,
                        "steps": ([("sleep", at)] if at else []) + steps
                        + [("log", "calls-done"), tail]})

        def driver():
            runtime.running.wait()
            env.sleep(3.0)
            env.log("stop-call")
            runtime.shutdown()
            env.log("stop-returned")

        env.spawn(driver, "driver")
        try:
            runtime.accept()
        except Abort:
            raise
        except BaseException as err:  # noqa: B036
            self.outcome = ("raised", err)
            env.log("run-ended", how="raised", exc=err)
        else:
            self.outcome = ("returned", None)
            env.log("run-ended", how="returned")

    def check(self, ex):
        violations = []
        label = self.params["context"]
        log = ex.log
        stop_seq = next((s for s, _n, _w, e, _d in log if e == "stop-call"), None)
        done_seq = next((s for s, _n, _w, e, _d in log if e == "calls-done"), None)
        if ex.deadlock:
            return {"violations": [("%s:deadlock" % label, "deadlock: %r" % (ex.deadlock_info,))],
                    "outcome": "deadlock"}
        contexts = {"asyncio": set(), "trio": set()}
        for seq, now, who, event, data in log:
            if event == "start" and data["id"].startswith("by-"):
                flavour = data["id"][3:]
                if flavour in contexts:
                    contexts[flavour].add((who, data["loop"], data["token"]))
        results = []
        if self.params.get("twin"):
            desc = self.calls[0]
            got = [(e, d) for s, _n, _w, e, d in log
                   if e in ("execute-returned", "execute-raised") and d["id"] == desc["id"]]
            objects = self.kit.returned.get(desc["id"], [])
            key = "%s->%s:twin" % (label, desc["flavour"])
            if stop_seq is not None and len(got) != 2:
                violations.append((key + ":no-result", "%d of 2 simultaneous execute calls of "
                                   "one callable returned" % len(got)))
            for event, data in got:
                if event != "execute-returned" or not any(data["value"] is o for o in objects):
                    violations.append((key + ":wrong-result",
                                       "a simultaneous execute of one callable gave %s %r"
                                       % (event, data.get("value", data.get("exc")))))
            if len(got) == 2 and all(e == "execute-returned" for e, d in got) and \
                    got[0][1]["value"] is got[1][1]["value"]:
                violations.append((key + ":same-object-twice",
                                   "both callers received the same object"))
            results = [e for e, d in got]
        for desc in ([] if self.params.get("twin") else self.calls):
            ident, flavour = desc["id"], desc["flavour"]
            key = "%s->%s" % (label, flavour)
            starts = [(s, w, d) for s, _n, w, e, d in log if e == "start" and d["id"] == ident]
            result = [(s, e, d) for s, _n, _w, e, d in log
                      if e in ("execute-returned", "execute-raised") and d["id"] == ident]
            if self.outcome == ("returned", None) or self.outcome is None:
                pass
            if not result:
                if stop_seq is not None:
                    violations.append(("%s:no-result" % key,
                                       "execute(%s) had not returned when the harness stopped "
                                       "the runtime" % ident))
                continue
            if len(starts) != 1:
                violations.append(("%s:ran-%d-times" % (key, len(starts)),
                                   "%s ran %d times" % (ident, len(starts))))
                continue
            seq, who, data = starts[0]
            if tuple(data["args"]) != tuple(desc["args"]) or data["kwargs"] != desc["kwargs"]:
                violations.append(("%s:wrong-arguments" % key,
                                   "%s received %r %r" % (ident, data["args"], data["kwargs"])))
            if flavour in contexts and (who, data["loop"], data["token"]) not in contexts[flavour]:
                violations.append(("%s:wrong-context" % key,
                                   "%s ran in %r, the %s payloads run in %r"
                                   % (ident, (who, data["loop"], data["token"]), flavour,
                                      sorted(contexts[flavour]))))
            for s2, _n, w2, e2, d2 in log:
                if e2 == "plain-call" and d2["id"] == ident and flavour in contexts and \
                        (w2, d2["loop"], d2["token"]) not in contexts[flavour]:
                    violations.append(("%s:wrong-context:synchronous-part" % key,
                                       "the synchronous part of %s ran in %r, the %s payloads "
                                       "run in %r" % (ident, (w2, d2["loop"], d2["token"]),
                                                      flavour, sorted(contexts[flavour]))))
            how, obj = self.kit.left.get(ident, ("return", None))
            _seq, event, rdata = result[0]
            results.append(event)
            if how == "return":
                if event != "execute-returned" or rdata["value"] is not obj:
                    violations.append((
                        "%s:wrong-result" % key,
                        "execute(%s): payload returned %r, caller got %s %r"
                        % (ident, obj, event, rdata.get("value", rdata.get("exc")))))
            else:
                if event != "execute-raised" or rdata["exc"] is not obj:
                    copied = event == "execute-raised" and type(rdata["exc"]) is type(obj) \
                        and rdata["exc"].args == obj.args
                    violations.append((
                        "%s:wrong-exception%s" % (
                            key, ":equal-copy-of-%s" % type(obj).__name__ if copied else ""),
                        "execute(%s): payload raised %r, caller got %s %r"
                        % (ident, obj, event, rdata.get("value", rdata.get("exc")))))
        # the runtime is left alone
        if self.outcome is None:
            violations.append(("%s:did-not-end" % label, "accept() did not end after shutdown()"))
        elif self.outcome[0] != "returned":
            violations.append(("%s:runtime-failed" % label,
                               "accept() raised %r although only execute outcomes occurred"
                               % (self.outcome[1],)))
        if stop_seq is not None:
            for flavour in FLAVOURS:
                ident = "by-" + flavour
                early = [s for s, _n, _w, e, d in log
                         if e in ("cancelled", "left") and d.get("id") == ident and s < stop_seq]
                if early:
                    violations.append(("%s:bystander-stopped:%s" % (label, flavour),
                                       "%s was stopped before the harness stopped the runtime"
                                       % ident))
                elif done_seq is not None and not any(
                        e == "beat" and d.get("id") == ident and done_seq < s < stop_seq
                        for s, _n, _w, e, d in log):
                    violations.append(("%s:bystander-stalled:%s" % (label, flavour),
                                       "%s did not advance after the execute calls" % ident))
        return {"violations": violations,
                "outcome": repr((self.outcome and self.outcome[0], tuple(results)))}


def build(spec):
    return Scenario(spec["params"])


def allowed(context, flavour):
    # a coroutine payload may only execute into a different flavour (DESIGN.md C10 domain)
    return not (context in ("asyncio", "trio") and context == flavour)


def scenario_params(tier):
    out = []
    counter = itertools.count()
    for context, flavour, outcome in itertools.product(CONTEXTS, FLAVOURS, OUTCOMES):
        if not allowed(context, flavour):
            continue
        for duration in ((0.0,) if tier == "quick" else (0.0, 0.3)):
            out.append({"context": context,
                        "calls": [(flavour, outcome, next(counter) % len(ARGS), duration)]})
    for flavour in FLAVOURS:
        out.append({"context": "outside", "twin": True,
                    "calls": [(flavour, ("return", "object"), 0, 0.2)]})
    # a plain callable whose synchronous first part must run in the runner as well
    for context, flavour in itertools.product(CONTEXTS, ["asyncio", "trio"]):
        if allowed(context, flavour):
            for outcome in (("return", "object"), ("raise", "LookupError")):
                out.append({"context": context, "plain": True,
                            "calls": [(flavour, outcome, 1, 0.0)]})
    # more simultaneous executes than any pool of helper threads would have
    out.append({"context": "outside", "many": 40, "calls": [], "bound0": True})
    # the executed asyncio payload waits for a reply whose sender knows it only weakly
    for context in CONTEXTS:
        if allowed(context, "asyncio"):
            for outcome in (("return", "object"), ("raise", "LookupError")):
                out.append({"context": context, "weak_wait": True,
                            "calls": [("asyncio", outcome, 1, 0.0)]})
    # the call is the very first step of a payload queued before the runtime starts
    for context, flavour in itertools.product(CONTEXTS[1:], FLAVOURS):
        if allowed(context, flavour):
            for outcome in (("return", "object"), ("raise", "LookupError")):
                out.append({"context": context, "call_at": 0.0,
                            "calls": [(flavour, outcome, 1, 0.0)]})
    # sequences of two and three calls
    seqs = [[("return", "0"), ("raise", "LookupError")],
            [("raise", "UserError"), ("return", "object")],
            [("return", "''"), ("raise", "LookupError"), ("return", "None")]]
    for context in CONTEXTS:
        targets = [f for f in FLAVOURS if allowed(context, f)]
        for seq in seqs:
            for combo in itertools.product(targets, repeat=len(seq)):
                if tier == "quick" and len(set(combo)) < min(len(targets), len(seq)):
                    continue
                out.append({"context": context,
                            "calls": [(f, o, (i + 1) % len(ARGS), 0.2 if i == 1 else 0.0)
                                      for i, (f, o) in enumerate(zip(combo, seq))]})
    return out


def run(ctx):
    bound = 1 if ctx.quick else 2
    in_core = (lambda params: True) if ctx.quick else H.core_scenarios(scenario_params)
    specs = [{
        "module": "checks.c10", "params": params,
        # (the scenario with many callers: the default schedule only - forty threads)
        # thorough: two deviations for the quick-tier scenarios with a single call (the
        # sequences of calls take one; measured: all of them at two take over 90 minutes)
        "bound": 0 if params.get("bound0") else (
            bound if in_core(params) and (ctx.quick or len(params["calls"]) == 1) else 1),
        "opts": {"time_horizon": 30.0, "drain": 2.0,
                 "max_points": 60000 if params.get("bound0") else 8000, "free_switch_cost": 1,
                     "time_jump_cost": None if ctx.quick else 1},
        "budget": 3000 if ctx.quick else 8000,
    } for params in scenario_params(ctx.tier)]
    ctx.pmap(H.shard, specs)
    H.finish(
        ctx, specs,
        rule="calling context x target flavour x outcome x arguments; sequences of 2-3 calls; "
             "one sleeping bystander per flavour; every schedule within the deviation bound; "
             "non-trivial = a schedule with at least one deviation from the default one (all explored schedules are distinct)",
        bounds={"deviation_bound": bound, "granularity": "synchronisation operations"},
        assumptions=["same-flavour execute from a coroutine and nested cross-flavour cycles "
                     "deadlock by construction and are not driven; an executed threading "
                     "payload runs in the caller's thread by documented design"],
    )


replay = H.replay
