"""
C03 - every adopted payload and every service is started exactly once.

Engine: cosched.  Submitting context x target flavour x arguments x services (created
before / after start, from outside or from inside payloads) x queued payloads, several
polling cycles of the service loop, under every schedule within the deviation bound; and
adopt racing with a shutdown whose cleanup window is held open.
"""
import itertools

from vlib.cosched import harness as H
from vlib.cosched import kit as K
from vlib.cosched.sched import Abort

FLAVOURS = ["asyncio", "trio", "threading"]
CONTEXTS = ["outside", "asyncio", "trio", "threading"]
ARGS = [((), {}), ((1,), {}), ((1, "a"), {"k": 2}), ((), {"k": 2, "m": None}),
        ((1,), {"k": 2}), ((1, "a"), {}), ((1, "a"), {"k": 2, "m": None}), ((), {"k": 2}),
        ((1,), {"k": 2, "m": None}),
        # an argument that cannot be printed (whoever describes the payload must cope)
        ((K.Unprintable(),), {"k": K.Unprintable()})]


def worker(ident, flavour, args=((), {}), falsy=False):
    tail = ("block",) if flavour == "threading" else ("forever", 0.9)
    return {"id": ident, "flavour": flavour, "steps": [tail], "args": args[0],
            "kwargs": args[1], "falsy": falsy}


class Scenario:
    def __init__(self, params):
        self.params = params
        self.kit = None
        self.outcome = None
        self.submitted = {}
        self.services = {}

    def _note(self, desc, service=False):
        (self.services if service else self.submitted)[desc["id"]] = desc
        return desc

    def main(self, env):
        from cobald.daemon.runners.service import ServiceRunner

        params = self.params
        runtime = ServiceRunner(accept_delay=1)
        kit = self.kit = K.Kit(env, runtime)
        keep = env.shared.setdefault("keep", [])
        # queued before start
        for index, flavour in enumerate(params.get("queued", ())):
            kit.submit(self._note(worker(
                "q%d-%s" % (index, flavour), flavour,
                ARGS[params.get("queued_args", (index + 1) % len(ARGS))])))
        for index, flavour in enumerate(params.get("services_before", ())):
            keep.append(kit.service_class(
                self._note(worker("sb%d-%s" % (index, flavour), flavour,
                                  falsy=bool(params.get("falsy"))), True))())
        # submissions after start
        outside_jobs, early_jobs = [], []
        for index, (context, flavour, how, args_index) in enumerate(params.get("late", ())):
            ident = "l%d-%s-from-%s" % (index, flavour, context)
            desc = self._note(worker(ident, flavour, ARGS[args_index],
                                     falsy=bool(params.get("falsy")) and how == "service"),
                              how == "service")
            step = ("service" if how == "service" else "adopt", desc)
            when = params.get("late_at", 0.0)
            if context == "outside":
                outside_jobs.append((when, step))
            elif context == "early":
                early_jobs.append(step)
            elif params.get("race") and context in ("asyncio", "trio"):
                # a coroutine payload is cancelled by the shutdown: it adopts in its cleanup
                cleanup = ("sync-adopt", desc) if context == "asyncio" else \
                    ("shield-adopt", max(when - 1.5, 0.0), desc)
                kit.submit(self._note({"id": "sub%d-%s" % (index, context), "flavour": context,
                                       "steps": [("forever", 0.9)], "cleanup": cleanup}))
            else:
                tail = ("block",) if context == "threading" else ("forever", 0.9)
                steps = ([("sleep", when)] if when else []) + [step, tail]
                kit.submit(self._note({"id": "sub%d-%s" % (index, context), "flavour": context,
                                       "steps": steps}))
        for index, (context, flavour, count) in enumerate(params.get("repeat", ())):
            desc = self._note(worker("rep%d-%s" % (index, flavour), flavour))
            desc["_expect"] = count
            step = ("adopt-many", desc, count)
            if context == "outside":
                outside_jobs.append((params.get("late_at", 0.0), step))
            elif context == "queued":
                kit._sync_step(desc, step)
            else:
                tail = ("block",) if context == "threading" else ("forever", 0.9)
                kit.submit(self._note({"id": "subr%d-%s" % (index, context), "flavour": context,
                                       "steps": [step, tail]}))
        for index, (context, flavour) in enumerate(params.get("replace", ())):
            first = self._note({"id": "short%d-%s" % (index, flavour), "flavour": flavour,
                                "steps": []}, True)
            second = self._note(worker("second%d-%s" % (index, flavour), flavour), True)
            steps = [("service", first), ("sleep", 1.3), ("service-drop",), ("service", second)]
            tail = ("block",) if context == "threading" else ("forever", 0.9)
            kit.submit(self._note({"id": "subx%d-%s" % (index, context), "flavour": context,
                                   "steps": steps + [tail]}))
        for index, (blocked, busy) in enumerate(params.get("cross", ())):
            # a payload of flavour ``blocked`` waits in execute() for a payload that runs in
            # flavour ``busy``; meanwhile a payload of flavour ``busy`` adopts one of flavour
            # ``blocked``: adopt must return without waiting for the blocked thread
            inner = {"id": "inner%d-%s" % (index, busy), "flavour": busy,
                     "steps": [("sleep", 0.5)]}
            tail = ("block",) if blocked == "threading" else ("forever", 0.9)
            kit.submit(self._note({"id": "exec%d-%s" % (index, blocked), "flavour": blocked,
                                   "steps": [("execute", inner), tail]}))
            self._note(inner)
            target = self._note(worker("x%d-%s" % (index, blocked), blocked, ARGS[2]))
            tail = ("block",) if busy == "threading" else ("forever", 0.9)
            kit.submit(self._note({"id": "subc%d-%s" % (index, busy), "flavour": busy,
                                   "steps": [("sleep", 0.2), ("adopt", target), tail]}))
        for index, (context, flavour, shape) in enumerate(params.get("shapes", ())):
            # service classes of a particular make; the singleton is constructed twice
            desc = self._note(dict(worker("shape%d-%s-%s" % (index, shape, flavour), flavour),
                                   shape=shape), True)
            steps = [("service", desc)]
            if shape == "cached":
                steps += [("sleep", 1.3), ("service", desc)]
            if shape == "equal":
                # a second instance, equal to the first: both are to be started
                steps += [("sleep", 1.3), ("service", desc)]
                desc["_expect"] = 2
            if context == "before":
                keep.append(kit.service_instance(desc))
                outside_jobs += [(1.3, step) for step in steps[2:]]
            elif context == "outside":
                outside_jobs += [(0.0 if number == 0 else 1.3, step)
                                 for number, step in enumerate(steps) if step[0] == "service"]
            else:
                tail = ("block",) if context == "threading" else ("forever", 0.9)
                kit.submit(self._note({"id": "subs%d-%s" % (index, context), "flavour": context,
                                       "steps": steps + [tail]}))
        if params.get("shielded"):
            kit.submit(self._note({"id": "shielded", "flavour": "trio",
                                   "steps": [("forever", 0.9)],
                                   "cleanup": ("shield", params["shielded"])}))
        stop_at = params.get("stop_at", 3.0)

        def submitter():
            runtime.running.wait()
            for when, (op, desc, *_count) in sorted(outside_jobs, key=lambda j: j[0]):
                if when > env.now:
                    env.sleep(when - env.now)
                if op == "adopt":
                    kit.submit(desc)
                elif op == "adopt-many":
                    kit._sync_step(desc, (op, desc, _count[0]))
                else:
                    keep.append(kit.service_instance(desc))

        if params.get("stop_by") == "fail":
            # the runtime goes down through the failure path instead of shutdown()
            kit.submit(self._note({"id": "failing", "flavour": "threading",
                                   "steps": [("sleep", stop_at), ("log", "stop-call"),
                                             ("raise", "LookupError")]}))

        def driver():
            runtime.running.wait()
            if params.get("stop_by") == "fail":
                return
            if stop_at > env.now:
                env.sleep(stop_at - env.now)
            env.log("stop-call")
            try:
                runtime.shutdown()
            except Abort:
                raise
            except BaseException as err:  # noqa: B036
                env.log("stop-raised", exc=err)
            else:
                env.log("stop-returned")

        def early_submitter():
            # does not wait for the runtime to report running: the call lands wherever the
            # schedule puts it - before the start, in the launch window, or afterwards
            for op, desc in early_jobs:
                if op == "adopt":
                    kit.submit(desc)
                else:
                    env.log("service-create", id=desc["id"])
                    keep.append(kit.service_class(desc)())

        env.spawn(driver, "driver")
        if outside_jobs:
            env.spawn(submitter, "submitter")
        if early_jobs:
            env.spawn(early_submitter, "early")
        try:
            runtime.accept()
        except Abort:
            raise
        except BaseException as err:  # noqa: B036
            self.outcome = ("raised", err)
            env.log("run-ended", how="raised", exc=err)
        else:
            self.outcome = ("returned", None)
            env.log("run-ended", how="returned")

    def check(self, ex):
        params = self.params
        race = bool(params.get("race"))
        label = "race" if race else "steady"
        violations = []
        stop_seq = None
        starts, adopt_calls, adopt_results = {}, {}, {}
        cleanup_done, cancelled = {}, {}
        for seq, now, who, event, data in ex.log:
            ident = data.get("id") if isinstance(data, dict) else None
            if event == "stop-call" and stop_seq is None:
                stop_seq = seq
            elif event == "start":
                starts.setdefault(ident, []).append((seq, who, data))
            elif event == "adopt-call":
                adopt_calls[ident] = seq
            elif event in ("adopt-returned", "adopt-raised"):
                adopt_results[ident] = (seq, event, data)
            elif event == "cancelled":
                cancelled.setdefault(ident, seq)
            elif event == "cleanup-done":
                cleanup_done[ident] = seq
        if ex.deadlock:
            violations.append(("%s:deadlock" % label, "deadlock: %r" % (ex.deadlock_info,)))
            return {"violations": violations, "outcome": "deadlock"}
        if self.outcome is None:
            violations.append(("%s:did-not-end" % label,
                               "accept() did not end after shutdown() (t=%.1f)" % ex.now))
            return {"violations": violations, "outcome": "did-not-end"}
        everything = dict(self.submitted)
        everything.update(self.services)
        # adopt: returns None, never raises (while a cleanup is still in progress)
        for ident, (seq, event, data) in sorted(adopt_results.items()):
            if event == "adopt-raised":
                in_progress = [p for p, c in cancelled.items()
                               if c < seq and cleanup_done.get(p, 1 << 60) > seq]
                if not race or stop_seq is None or seq < stop_seq or in_progress:
                    flavour = everything[ident]["flavour"]
                    violations.append((
                        "%s:adopt-raised:%s:%s" % (label, flavour, type(data["exc"]).__name__),
                        "adopt(%s) raised %r%s" % (
                            ident, data["exc"],
                            " while the cleanup of %r was still in progress" % in_progress
                            if in_progress else "")))
            elif data.get("value") is not None:
                violations.append(("%s:adopt-returned-value" % label,
                                   "adopt(%s) returned %r" % (ident, data["value"])))
        # exactly once, right arguments, right context
        contexts = {"asyncio": set(), "trio": set(), "threading": set()}
        for ident, desc in sorted(everything.items()):
            found = starts.get(ident, [])
            flavour = desc["flavour"]
            before_stop = [s for s in found if stop_seq is None or s[0] < stop_seq]
            expect = desc.get("_expect", 1)
            if len(found) > expect:
                violations.append(("%s:started-twice:%s" % (label, flavour),
                                   "%s was started %d times, submitted %d times"
                                   % (ident, len(found), expect)))
            if not race and 0 < len(before_stop) < expect:
                violations.append(("%s:lost:%s" % (label, flavour),
                                   "%s was adopted %d times but started only %d times"
                                   % (ident, expect, len(before_stop))))
            if not race and not before_stop:
                was_adopted = ident in adopt_calls or ident in self.services or True
                if was_adopted:
                    violations.append(("%s:never-started:%s" % (label, flavour),
                                       "%s was submitted but had not been started when the "
                                       "harness stopped the runtime" % ident))
            for seq, who, data in found:
                if ident in self.services:
                    want_args, want_kwargs = (), {}
                else:
                    want_args, want_kwargs = tuple(desc.get("args", ())), desc.get("kwargs", {})
                if tuple(data["args"]) != want_args or data["kwargs"] != want_kwargs:
                    violations.append((
                        "%s:wrong-arguments:%s" % (label, flavour),
                        "%s received args=%s kwargs=%s, submitted args=%s kwargs=%s"
                        % (ident, K.safe_repr(data["args"]), K.safe_repr(data["kwargs"]),
                           K.safe_repr(want_args), K.safe_repr(want_kwargs))))
                if not ident.startswith("inner"):
                    # (payloads run through execute() are C10's business: a thread flavour
                    # execute runs in the caller's thread)
                    contexts[flavour].add((who, data["loop"], data["token"]))
        for ident in starts:
            if ident not in everything:
                violations.append(("%s:unknown-start" % label, "%s started" % ident))
        if len(contexts["asyncio"]) > 1 or any(
                who != "main" or loop is None for who, loop, token in contexts["asyncio"]):
            violations.append(("%s:wrong-context:asyncio" % label,
                               "asyncio payloads ran in %r" % sorted(contexts["asyncio"])))
        if len(contexts["trio"]) > 1 or any(
                who == "main" or token is None for who, loop, token in contexts["trio"]):
            violations.append(("%s:wrong-context:trio" % label,
                               "trio payloads ran in %r" % sorted(contexts["trio"])))
        coroutine_threads = {who for fl in ("asyncio", "trio") for who, _l, _t in contexts[fl]}
        coroutine_threads.add("main")
        for who, loop, token in contexts["threading"]:
            if who in coroutine_threads or loop is not None or token is not None:
                violations.append(("%s:wrong-context:threading" % label,
                                   "a thread payload ran in %r" % ((who, loop, token),)))
        outcome = (self.outcome[0], tuple(sorted(starts)),
                   tuple(sorted((i, r[1]) for i, r in adopt_results.items())))
        return {"violations": violations, "outcome": repr(outcome)}


def build(spec):
    return Scenario(spec["params"])


def scenario_params(tier):
    out = []
    counter = itertools.count()
    # 1. one submitter x one target flavour, adopt and service creation, rotating arguments
    for context, flavour, how in itertools.product(CONTEXTS, FLAVOURS, ["adopt", "service"]):
        variants = [next(counter) % len(ARGS)] if tier == "quick" else range(len(ARGS))
        if how == "service":
            variants = [0]
        for args_index in variants:
            for late_at in (0.0, 1.25):
                out.append({"late": [(context, flavour, how, args_index)], "late_at": late_at})
    for flavour, how in itertools.product(FLAVOURS, ["adopt", "service"]):
        out.append({"late": [("early", flavour, how, 2 if how == "adopt" else 0)]})
    # 1a. arguments that cannot be printed: queued, from outside, from a payload
    unprintable = len(ARGS) - 1
    for flavour in FLAVOURS:
        out.append({"queued": [flavour], "queued_args": unprintable})
        for context in ("outside", "trio"):
            out.append({"late": [(context, flavour, "adopt", unprintable)], "late_at": 0.0})
    # 2. queued payloads and services created before start: 0..2 per flavour
    counts = [(a, t, s) for a, t, s in itertools.product(range(3), repeat=3)]
    for a, t, s in counts:
        if a + t + s == 0:
            continue
        flavours = ["asyncio"] * a + ["trio"] * t + ["threading"] * s
        out.append({"queued": flavours})
        if tier == "thorough" or (a + t + s) <= 3:
            out.append({"services_before": flavours})
    out.append({"queued": FLAVOURS, "services_before": FLAVOURS,
                "late": [("outside", "trio", "adopt", 2), ("outside", "asyncio", "service", 0)]})
    # 3. two submitters at once
    pairs = list(itertools.product(CONTEXTS, FLAVOURS))
    for (ctx_a, fl_a), (ctx_b, fl_b) in itertools.combinations(pairs, 2):
        if tier == "quick" and (ctx_a == ctx_b or fl_a != fl_b):
            continue
        out.append({"late": [(ctx_a, fl_a, "adopt", 2), (ctx_b, fl_b, "adopt", 4)]})
    # services created from outside while the polling loop iterates over existing ones
    for flavour in FLAVOURS:
        out.append({"services_before": ["asyncio", "trio"],
                    "late": [("outside", flavour, "service", 0)], "late_at": 0.0})
    # 3a. services whose instances are falsy (container-like classes)
    out.append({"services_before": FLAVOURS, "falsy": True})
    for context, flavour in itertools.product(["outside", "trio"], FLAVOURS):
        out.append({"late": [(context, flavour, "service", 0)], "late_at": 0.0, "falsy": True})
    # 3c. service classes of a particular make: a singleton constructed twice, a subclass of
    # a service class (decorated again with another flavour, or not decorated again)
    for context, flavour, shape in itertools.product(
            ["before", "outside", "trio"], FLAVOURS,
            ["cached", "redecorated", "subclass", "equal"]):
        out.append({"shapes": [(context, flavour, shape)]})
    # 3d. adopt into a flavour whose thread is waiting in execute() for the adopter's flavour
    for blocked, busy in itertools.permutations(FLAVOURS, 2):
        out.append({"cross": [(blocked, busy)]})
    # 3b. the very same callable adopted several times; a service replaced by a new one
    for context, flavour in itertools.product(["queued"] + CONTEXTS, FLAVOURS):
        out.append({"repeat": [(context, flavour, 3)]})
    for context, flavour in itertools.product(["trio", "asyncio", "threading"], FLAVOURS):
        out.append({"replace": [(context, flavour)]})
    # 4. adopt racing with a shutdown whose cleanup window is held open
    for context, flavour in itertools.product(CONTEXTS, FLAVOURS):
        # shutdown() is called at t=1.0 and takes effect at the next poll of the service
        # loop (t=1.5); the shielded trio payload keeps the cleanup window open afterwards
        for shielded, late_at in ((0.5, 1.5), (5.0, 1.0), (5.0, 1.5), (5.0, 2.5), (5.0, 4.0)):
            out.append({"race": True, "late": [(context, flavour, "adopt", 2)],
                        "late_at": late_at, "stop_at": 1.0, "shielded": shielded})
        # the same while the runtime comes down because a payload failed
        for late_at in (1.0, 2.5):
            out.append({"race": True, "stop_by": "fail", "late": [(context, flavour, "adopt", 2)],
                        "late_at": late_at, "stop_at": 1.0, "shielded": 5.0})
    return out


def run(ctx):
    bound = 1 if ctx.quick else 2
    in_core = (lambda params: True) if ctx.quick else H.core_scenarios(scenario_params)
    specs = []
    for params in scenario_params(ctx.tier):
        specs.append({
            "module": "checks.c03", "params": params,
        "bound": bound if in_core(params) else 1,
            "opts": {"time_horizon": 40.0, "drain": 3.0, "max_points": 8000,
                     "free_switch_cost": 1,
                     "time_jump_cost": None if ctx.quick else 1},
            "budget": 3000 if ctx.quick else 20000,
        })
    if ctx.quick:
        # the registry of service units is shared between the creating thread and the polling
        # loop: only loop-iteration granularity can interleave them
        specs += H.line_variants(
            specs, lambda p: p.get("services_before") == ["asyncio", "trio"] and p.get("late")
            and p["late"][0][1] == "trio")
    else:
        specs += H.line_variants(
            specs, lambda p: p.get("race") or len(p.get("late", ())) == 2
            or (p.get("services_before") == ["asyncio", "trio"] and p.get("late"))
            or (p.get("late") and p["late"][0][0] == "early")
            or (p.get("late") and p["late"][0][2] == "service" and p.get("late_at") == 0.0))
    ctx.pmap(H.shard, specs, cost=lambda s: s["opts"].get("line_points", False))
    H.finish(
        ctx, specs,
        rule="submitting context x target flavour x adopt/service x arguments x submission "
             "time; queued payloads and services 0..2 per flavour; pairs of submitters; adopt "
             "racing a shutdown with a shielded cleanup; every schedule within the deviation "
             "bound; non-trivial = a schedule with at least one deviation from the default one (all explored schedules are distinct)",
        bounds={"deviation_bound": bound, "granularity": "synchronisation operations" + (
            "" if ctx.quick else "; source lines of the runner package at bound 1 for the "
            "race, two-submitter and late-service scenarios"),
                "polling_cycles": ">= 5 before the harness stops the runtime at t=3"},
        assumptions=["adopt after the blocking run has completely ended is not driven; kwargs "
                     "named payload/flavour cannot be passed through adopt"],
    )


replay = H.replay
