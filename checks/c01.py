"""
C01 - background failures always stop the daemon (fail-stop, never silent).

Engine: cosched.  Every scenario of the product (flavour x failure kind x registration x
failure instant x bystanders x second failure) is executed on the unmodified runtime under
every schedule within the deviation bound; the oracle looks at how accept() ended.
"""
import itertools

from vlib.cosched import kit as K
from vlib.cosched import harness as H
from vlib.cosched.sched import Abort

FLAVOURS = ["asyncio", "trio", "threading"]
REGISTRATIONS = ["queued", "outside", "outside-early", "from:asyncio", "from:trio",
                 "from:threading", "service-before", "service-after"]
WHEN = ["first", "checkpoint", "1s"]


def failing_desc(ident, flavour, how, when):
    if when == "at-call":
        # the callable raises when it is called: there never is an awaitable
        return {"id": ident, "flavour": flavour, "steps": [], "call_raises": how[1]}
    steps = []
    if when == "checkpoint":
        steps.append(("spin", 1))
    elif when == "1s":
        steps.append(("sleep", 1.0))
    steps.append(tuple(how))
    return {"id": ident, "flavour": flavour, "steps": steps}


def own_cancellation(flavour, how):
    return tuple(how) in ((("raise", "asyncio.CancelledError")), ("raise", "trio.Cancelled")) \
        and how[1].split(".")[0] == flavour


class Scenario:
    def __init__(self, params):
        self.params = params
        self.outcome = None
        self.kit = None

    # -- driver --------------------------------------------------------------------
    def main(self, env):
        from cobald.daemon.runners.service import ServiceRunner

        params = self.params
        runtime = ServiceRunner(accept_delay=params.get("accept_delay", 1))
        kit = self.kit = K.Kit(env, runtime)
        keep = env.shared.setdefault("keep", [])
        failing = [failing_desc("f0", *params["failing"][:3])]
        regs = [params["failing"][3]]
        if params.get("second"):
            failing.append(failing_desc("f1", *params["second"][:3]))
            regs.append(params["second"][3])
        late = []
        for desc, reg in zip(failing, regs):
            if reg == "queued":
                kit.submit(desc)
            elif reg == "service-before":
                keep.append(kit.service_class(desc)())
            elif reg.startswith("from:"):
                parent_flavour = reg.split(":")[1]
                tail = ("block",) if parent_flavour == "threading" else ("forever", 7.0)
                kit.submit({"id": "parent-" + desc["id"], "flavour": parent_flavour,
                            "steps": [("adopt", desc), tail]})
            else:
                late.append((desc, reg))
        bystanders = params.get("bystanders", "none")
        if bystanders == "sleepers":
            for flavour in FLAVOURS:
                kit.submit({"id": "by-" + flavour, "flavour": flavour,
                            "steps": [("forever", 0.7)]})
        elif bystanders == "spinners":
            for flavour in FLAVOURS[:2]:
                kit.submit({"id": "by-" + flavour, "flavour": flavour,
                            "steps": [("spin", None)]})
        elif bystanders == "blocked":
            kit.submit({"id": "by-threading", "flavour": "threading", "steps": [("block",)]})
        elif bystanders == "stubborn":
            # a coroutine that finishes its current item before it gives in to a cancellation
            kit.submit({"id": "by-asyncio", "flavour": "asyncio",
                        "steps": [("stubborn", 1, 0.3)]})

        def outside_early(desc):
            # does not wait for the runtime: wherever the schedule lets the call land
            kit.submit(desc)

        for desc, reg in list(late):
            if reg == "outside-early":
                late.remove((desc, reg))
                env.spawn(outside_early, "early-" + desc["id"], desc)

        def outside_second(desc):
            runtime.running.wait()
            kit.submit(desc)

        for desc, reg in list(late):
            if reg == "outside2":
                late.remove((desc, reg))
                env.spawn(outside_second, "second-" + desc["id"], desc)

        def companion():
            runtime.running.wait()
            kit.submit({"id": "companion", "flavour": params["companion"],
                        "steps": [("block",) if params["companion"] == "threading"
                                  else ("forever", 0.7)]})

        if params.get("companion"):
            env.spawn(companion, "companion")

        def outside():
            runtime.running.wait()
            for desc, reg in late:
                if reg == "outside":
                    kit.submit(desc)
                else:
                    keep.append(kit.service_class(desc)())

        if late:
            env.spawn(outside, "driver")
        try:
            runtime.accept()
        except Abort:
            raise
        except BaseException as err:  # noqa: B036
            self.outcome = ("raised", err)
            env.log("accept-raised", exc=err)
        else:
            self.outcome = ("returned", None)
            env.log("accept-returned")

    # -- oracle --------------------------------------------------------------------
    def check(self, ex):
        params = self.params
        fails = [params["failing"]] + ([params["second"]] if params.get("second") else [])
        label = "+".join("%s:%s:%s" % (f[0], f[1][0], f[1][1]) for f in fails)
        violations = []
        refused = [d["id"] for _s, _n, _w, e, d in ex.log if e == "adopt-raised"
                   and str(d.get("id", "")).lstrip("parent-") in ("f0", "f1")]
        if refused:
            # the failing payload was never accepted (adopt raised: C03's business, not a
            # background failure) - nothing to decide here
            return {"violations": [], "outcome": "adopt-refused"}
        if ex.deadlock:
            violations.append(("%s:deadlock" % label,
                               "deadlock: %r" % (ex.deadlock_info,)))
        elif self.outcome is None:
            violations.append(("%s:did-not-end" % label,
                               "accept() still running at the horizon (t=%.1f): the failure "
                               "was swallowed" % ex.now))
        else:
            how, exc = self.outcome
            kinds = [f[1] for f in fails]
            only_interrupt = all(tuple(k) == ("raise", "KeyboardInterrupt") for k in kinds)
            ordinary = all(k[0] == "return" or k[1] in K.EXCEPTION_KINDS for k in kinds)
            if how == "returned":
                if not only_interrupt:
                    violations.append(("%s:returned-normally" % label,
                                       "accept() returned normally although a payload failed"))
            elif ordinary:
                if type(exc) is not RuntimeError:
                    violations.append(("%s:raised-%s" % (label, type(exc).__name__),
                                       "accept() raised %r, not RuntimeError" % (exc,)))
                else:
                    causes = K.flatten_causes(exc.__cause__)
                    found = False
                    for ident in ("f0", "f1")[:len(fails)]:
                        kind, obj = self.kit.left.get(ident, (None, None))
                        if kind == "raise" and any(c is obj for c in causes):
                            found = True
                        if kind == "raise" and isinstance(obj, BaseExceptionGroup) and all(
                            any(c is leaf for c in causes) for leaf in K.leaves(obj)
                        ):
                            # frameworks may re-derive a group (split/derive); its leaves stay
                            found = True
                        if kind == "return" and any(
                            type(c).__name__ == "OrphanedReturn"
                            and getattr(c, "value", self) is obj for c in causes
                        ):
                            found = True
                    if not found:
                        violations.append((
                            "%s:wrong-cause" % label,
                            "accept() raised RuntimeError but its cause %r does not lead to "
                            "what left the payload (%s)" % (
                                exc.__cause__, {k: (v[0], type(v[1]).__name__)
                                                for k, v in self.kit.left.items()})))
        outcome = (self.outcome[0], type(self.outcome[1]).__name__) if self.outcome else None
        return {"violations": violations, "outcome": repr(outcome)}


def build(spec):
    return Scenario(spec["params"])


# ---------------------------------------------------------------------------------------


def scenario_params(tier):
    kinds = ([("raise", k) for k in K.EXCEPTION_KINDS + K.BASE_EXCEPTION_KINDS]
             + [("return", k) for k in K.VALUE_KINDS])
    out = []
    # 1. flavour x kind x registration, failure at the first step (quick: every kind on three
    #    registration paths, eight representative kinds on all of them; thorough: full product)
    representative = [("raise", "LookupError"), ("raise", "StopIteration"),
                      ("raise", "ExceptionGroup"), ("raise", "cf.CancelledError"),
                      ("raise", "SystemExit"), ("raise", "KeyboardInterrupt"),
                      ("return", "0"), ("return", "()")]
    for flavour, how, reg in itertools.product(FLAVOURS, kinds, REGISTRATIONS):
        if own_cancellation(flavour, how):
            continue
        if tier == "quick" and how not in representative and reg not in (
                "queued", "outside-early", "service-after"):
            continue
        out.append({"failing": (flavour, how, "first", reg), "bystanders": "none"})
    # 2. failure instants and bystanders on representative kinds
    rep = [("raise", "LookupError"), ("return", "0"), ("raise", "KeyboardInterrupt")]
    for flavour, how, when, bystanders in itertools.product(
            FLAVOURS, rep, WHEN, ["none", "sleepers", "spinners", "blocked"]):
        if when == "first" and bystanders == "none":
            continue
        for reg in (["queued", "outside"] if tier == "quick" else REGISTRATIONS):
            out.append({"failing": (flavour, how, when, reg), "bystanders": bystanders})
    # 2a. coroutine flavours: the callable fails when it is called (no awaitable ever exists)
    for flavour, how, reg in itertools.product(
            ["asyncio", "trio"],
            [("raise", "LookupError"), ("raise", "TypeError"), ("raise", "StopIteration")],
            REGISTRATIONS):
        if tier == "quick" and how[1] != "LookupError" and reg not in ("queued", "outside"):
            continue
        out.append({"failing": (flavour, how, "at-call", reg), "bystanders": "none"})
    # 2b. a bystander that absorbs its first cancellation
    for flavour, how in itertools.product(FLAVOURS, [("raise", "LookupError"), ("return", "0")]):
        for reg in ("queued", "outside"):
            out.append({"failing": (flavour, how, "1s", reg), "bystanders": "stubborn"})
    # 3. two payloads failing at the same virtual instant
    for (fl_a, fl_b), how_a, how_b in itertools.product(
            itertools.product(FLAVOURS, FLAVOURS),
            [("raise", "LookupError"), ("return", "''")],
            [("raise", "UserError"), ("return", "1")]):
        out.append({"failing": (fl_a, how_a, "1s", "queued"),
                    "second": (fl_b, how_b, "1s", "queued"), "bystanders": "none"})
    # 4. the failing payload and a harmless one of the same flavour are adopted by two
    #    outside threads at the same moment
    for flavour, how in itertools.product(FLAVOURS, [("raise", "LookupError"), ("return", "0")]):
        out.append({"failing": (flavour, how, "first", "outside2"), "companion": flavour,
                    "bystanders": "none"})
    return out


def run(ctx):
    bound = 1 if ctx.quick else 2
    in_core = (lambda params: True) if ctx.quick else H.core_scenarios(scenario_params)
    specs = []
    for params in scenario_params(ctx.tier):
        spinners = params.get("bystanders") == "spinners"
        double = bool(params.get("second"))
        specs.append({
            "module": "checks.c01", "params": params,
            "bound": (bound if in_core(params) else 1) + (1 if double and ctx.quick else 0),
            "opts": {"spin_time": 0.05 if spinners else 0.0, "time_horizon": 30.0,
                     "drain": 5.0, "max_points": 6000, "free_switch_cost": 1,
                     "time_jump_cost": None if ctx.quick else 1},
            "budget": 4000 if ctx.quick else 30000,
        })
    if ctx.quick:
        # two hand-overs to the asyncio / trio runner that overlap: only visible between lines
        specs += H.line_variants(
            specs, lambda p: p.get("companion") in ("asyncio", "trio"))
    else:
        specs += H.line_variants(
            specs, lambda p: (p.get("second") or p["failing"][3] in ("outside", "from:trio"))
            and p["failing"][1] in (("raise", "LookupError"), ("return", "0"), ("return", "''"))
            and p.get("bystanders") in ("none", "sleepers"))
    ctx.pmap(H.shard, specs, cost=lambda s: s["opts"].get("line_points", False))
    H.finish(
        ctx, specs,
        rule="scenario product (flavour x failure kind x registration; instants x bystanders; "
             "double failures) x every schedule within the deviation bound (preemptions, "
             "non-default wake-up order, trio batch order); non-trivial = a schedule with at least one "
             "deviation from the default one (all explored schedules are distinct)",
        bounds={"deviation_bound": bound,
                "double_failure_bound": bound + (1 if ctx.quick else 0),
                "granularity": "synchronisation operations" + (
                    "" if ctx.quick else "; source lines of the runner package at bound 1 for "
                    "the outside / cross-flavour / double-failure scenarios")},
        assumptions=["a payload raising its own framework's cancellation exception is not "
                     "driven"],
    )


replay = H.replay
