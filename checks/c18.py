"""
C18 - YAML loading never instantiates anything that is not a registered plugin.

Bounded-exhaustive enumeration (smallscope) of YAML documents that use a tag which is not a
registered plugin: every ``python/*`` tag known to the installed PyYAML (the constructor
tables of FullLoader / UnsafeLoader / Loader are read, so none is missed), and unregistered
local tags; times the names they point at (builtins.eval, os.system, subprocess.Popen, a
cobald class, a registered plugin class addressed by dotted name, a canary module that is
not imported, a function in it, a canary callable); times the position of the tagged node
in the document; times the shape of the tagged node.  Thorough additionally: verbatim tag
spelling and documents with a second forbidden tag nested inside the first.

Every document is written by ``vlib.yamltext``, checked with ``yaml.compose`` to be
well-formed YAML that really carries the tag (so the rejection cannot be a syntax error),
and loaded through the real ``cobald.daemon.core.config.load(path)``.

Oracle: ``load`` raises; no canary fired (canary module not imported, canary callables not
called, no marker file, the audit hook saw no process creation / exec or compile of a
string / import of the canary, a registered class was not instantiated through the dotted
name).  The same documents with a *registered* tag (or plain data) at the tagged node load.
"""
import importlib.util
import os
import sys
import tempfile

from vlib.core import Acc
from vlib import yamltext as yt

PY_PREFIX = "tag:yaml.org,2002:"

TARGETS = [
    "builtins.eval",
    "os.system",
    "subprocess.Popen",
    "cobald.controller.linear.LinearController",
    "verif_plugins.VPoolL",
    "verif_canary_module",
    "verif_canary_module.fire",
    "verif_plugins.canary",
]
SHAPES = ["empty", "text", "seq", "map"]
POSITIONS = [
    "root",
    "top-level-key",
    "section-value",
    "pipeline-head",
    "pipeline-tail",
    "element-argument-of-tag",
    "element-argument-of-type-mapping",
    "inside-lazy-tag-in-section",
    "inside-eager-tag-in-section",
    "inside-lazy-tag-in-pipeline",
    "inside-eager-tag-in-pipeline",
    # the tagged node is a *key*
    "key-in-section-mapping",
    "key-in-type-mapping",
    "key-in-lazy-tag-mapping-in-pipeline",
    "key-in-eager-tag-mapping-in-pipeline",
    "key-in-eager-tag-mapping-in-section",
    "key-in-lazy-tag-nested-in-tag",
    # the tagged node is the last argument of the sequence form of a registered tag
    "last-in-lazy-tag-sequence-in-pipeline",
    "last-in-eager-tag-sequence-in-pipeline",
    "last-in-eager-tag-sequence-in-section",
    "last-in-lazy-tag-sequence-nested-in-tag",
    # ... and of a registered tag in mapping form, after other items
    "last-value-in-lazy-tag-mapping-in-section",
    # the tagged node is (part of) the value of a merge key: PyYAML merges the *nodes* of
    # such a value into the parent, the one place where it does not look a tag up
    "merge-value-in-section",
    "merge-list-item-in-section",
    "merge-list-in-section",
    "merge-value-in-lazy-tag-mapping-in-pipeline",
    "merge-value-in-eager-tag-mapping-in-section",
    "merge-value-in-type-mapping",
    "second-merge-value-in-section",
    # a merge inside a merged mapping: PyYAML flattens those recursively on its own
    "merge-nested-value-in-section",
    "merge-nested-in-list-item-in-section",
    "merge-nested-twice-in-section",
    # a value that a later pair with the same key replaces
    "duplicate-key-replaced-in-section",
    "duplicate-key-replaced-in-lazy-tag-mapping-in-pipeline",
    "merged-key-overridden-in-section",
    # parts of the file that a loader may be tempted not to look at: a further document of
    # the stream, top-level entries that do not look like sections
    "second-document",
    "second-document-after-empty",
    "top-level-x-section",
    "top-level-underscore-section",
    "top-level-dot-section",
    "top-level-null-key-section",
]
#: positions at which also a registered tag must not load (more than one document, unknown
#: sections): there is no control document for them
NO_CONTROL = {"second-document", "second-document-after-empty", "top-level-x-section",
              "top-level-underscore-section", "top-level-dot-section",
              "top-level-null-key-section"}


def shapes_for(position):
    """A merge value has to be a mapping (or a list of mappings): other shapes are refused
    by YAML itself, also with registered tags"""
    if position == "merge-list-in-section":
        return ["seq"]
    if position.startswith("merge-") or position == "second-merge-value-in-section":
        return ["map"]
    return SHAPES
#: second tags of the two-tag documents (thorough): one per kind, aimed at the canaries
INNER_TAGS = [
    ("multi", "python/name:", "verif_plugins.canary"),
    ("multi", "python/module:", "verif_canary_module"),
    ("multi", "python/object:", "verif_plugins.VPoolL"),
    ("multi", "python/object/new:", "verif_plugins.canary"),
    ("multi", "python/object/apply:", "verif_plugins.canary"),
    ("exact", "python/tuple", None),
    ("local", "Foo", None),
]
MARKER = "@MARKER@"
CANARY_ARG = "canary-arg"


def python_tags():
    """(exact tags, tag prefixes) below python/ known to any PyYAML loader"""
    import yaml

    exact, multi = set(), set()
    for name in ("FullLoader", "UnsafeLoader", "Loader", "SafeLoader", "BaseLoader"):
        loader = getattr(yaml, name, None)
        if loader is None:
            continue
        for table, found in ((loader.yaml_constructors, exact),
                             (loader.yaml_multi_constructors, multi)):
            for tag in table:
                if tag and tag.startswith(PY_PREFIX + "python/"):
                    found.add(tag[len(PY_PREFIX):])
    return sorted(exact), sorted(multi)


def all_tag_specs():
    exact, multi = python_tags()
    specs = [("exact", tag, None) for tag in exact]
    specs += [("multi", prefix, target) for prefix in multi for target in TARGETS]
    specs += [("local", "Foo", None)] + [("local", target, None) for target in TARGETS]
    return specs


# ---------------------------------------------------------------------------------------
# documents


def tag_text(spec, spelling):
    kind, name, target = spec
    if kind == "local":
        return "!" + name
    full = name + (target or "")
    if spelling == "verbatim":
        return "!<%s%s>" % (PY_PREFIX, full)
    return "!!" + full


NATURAL_TEXT = {
    "python/none": "", "python/bool": "true", "python/str": "x", "python/unicode": "x",
    "python/bytes": "eA==", "python/int": "1", "python/long": "1", "python/float": "1.5",
    "python/complex": "1j",
}


def arguments_for(spec):
    """Positional arguments that would make the named object fire a canary"""
    target = spec[2] if spec[0] == "multi" else (spec[1] if spec[0] == "local" else None)
    if target == "builtins.eval":
        return [yt.py("__import__('verif_plugins').canary('eval')")]
    if target == "os.system":
        return [yt.py("echo fired >> " + MARKER)]
    if target == "subprocess.Popen":
        return [yt.seq([yt.py("touch"), yt.py(MARKER)], flow=True)]
    if target == "cobald.controller.linear.LinearController":
        return [yt.scalar("null")]
    return [yt.py(CANARY_ARG)]


def tagged_node(spec, spelling, shape, extra=None):
    """The forbidden node; ``extra`` (a node) is nested inside it if it is a collection"""
    tag = tag_text(spec, spelling)
    args = arguments_for(spec) + ([extra] if extra is not None else [])
    if shape == "empty":
        return yt.scalar("", tag=tag)
    if shape == "text":
        text = NATURAL_TEXT.get(spec[1], "x") if spec[0] == "exact" else "x"
        return yt.scalar(text, tag=tag)
    if shape == "seq":
        return yt.seq(args, tag=tag)
    return yt.mapping([("args", yt.seq(args)), ("kwds", yt.mapping([]))], tag=tag)


def control_node(position, shape):
    """A node of the same shape using registered tags only (or no tag)"""
    registered = {
        "root": None, "top-level-key": None,
        "pipeline-head": "!VDeco1L", "pipeline-tail": "!VPoolL",
    }.get(position, "!VItemL")
    args = [yt.py(CANARY_ARG)]
    if position == "root":
        return None
    if position == "top-level-key":
        return yt.scalar("__config_test")
    if position.startswith("key-in-"):
        return yt.scalar("kk")      # a key of keyword arguments has to be a plain string
    if shape == "empty":
        return yt.scalar("", tag=registered)
    if shape == "text":
        return yt.scalar("x", tag=registered)
    if shape == "seq":
        return yt.seq(args, tag=registered)
    return yt.mapping([("args", yt.seq(args)), ("kwds", yt.mapping([]))], tag=registered)


def build_document(position, node):
    """The document with ``node`` at ``position``"""
    pool = yt.scalar("", tag="!VPoolL")
    pipeline = [pool]
    section = None
    extra_top = []
    if position == "root":
        if node is not None:
            return yt.document(node)
    elif position == "top-level-key":
        extra_top.append((node, yt.mapping([("a", yt.py(1))])))
    elif position == "section-value":
        section = yt.mapping([("a", node)])
    elif position == "pipeline-head":
        pipeline = [node, pool]
    elif position == "pipeline-tail":
        pipeline = [yt.scalar("", tag="!VCtrlL"), node]
    elif position == "element-argument-of-tag":
        pipeline = [yt.mapping([("k", node)], tag="!VDeco1L"), pool]
    elif position == "element-argument-of-type-mapping":
        pipeline = [yt.mapping([("__type__", yt.scalar("verif_plugins.VDeco1L")),
                                ("k", node)]), pool]
    elif position in ("inside-lazy-tag-in-section", "inside-eager-tag-in-section"):
        tag = "!VItemL" if "lazy" in position else "!VItemE"
        section = yt.mapping([("a", yt.mapping([("x", yt.seq([yt.py(1), node]))], tag=tag))])
    elif position in ("inside-lazy-tag-in-pipeline", "inside-eager-tag-in-pipeline"):
        tag = "!VDeco1L" if "lazy" in position else "!VDeco1E"
        pipeline = [yt.mapping([("k", yt.mapping([("deep", yt.seq([node]))]))], tag=tag),
                    pool]
    elif position == "key-in-section-mapping":
        section = yt.mapping([("a", yt.mapping([("b", yt.py(1)), (node, yt.py(2))]))])
    elif position == "key-in-type-mapping":
        pipeline = [yt.mapping([("__type__", yt.scalar("verif_plugins.VDeco1L")),
                                ("k", yt.py(1)), (node, yt.py(2))]), pool]
    elif position in ("key-in-lazy-tag-mapping-in-pipeline",
                      "key-in-eager-tag-mapping-in-pipeline"):
        tag = "!VDeco1L" if "lazy" in position else "!VDeco1E"
        pipeline = [yt.mapping([("k", yt.py(1)), (node, yt.py(2))], tag=tag), pool]
    elif position == "key-in-eager-tag-mapping-in-section":
        section = yt.mapping([("a", yt.mapping([("k", yt.py(1)), (node, yt.py(2))],
                                               tag="!VItemE"))])
    elif position == "key-in-lazy-tag-nested-in-tag":
        inner = yt.mapping([("k", yt.py(1)), (node, yt.py(2))], tag="!VItemL", flow=True)
        pipeline = [yt.mapping([("k", inner)], tag="!VDeco1E"), pool]
    elif position in ("last-in-lazy-tag-sequence-in-pipeline",
                      "last-in-eager-tag-sequence-in-pipeline"):
        tag = "!VDeco1L" if "lazy" in position else "!VDeco1E"
        pipeline = [yt.seq([yt.py(1), yt.py("two"), node], tag=tag), pool]
    elif position == "last-in-eager-tag-sequence-in-section":
        section = yt.mapping([("a", yt.seq([yt.py(1), node], tag="!VItemE"))])
    elif position == "last-in-lazy-tag-sequence-nested-in-tag":
        inner = yt.seq([yt.py(1), node], tag="!VItemL")
        pipeline = [yt.seq([inner], tag="!VDeco1L"), pool]
    elif position == "last-value-in-lazy-tag-mapping-in-section":
        section = yt.mapping([("a", yt.mapping([("k", yt.py(1)), ("z", node)],
                                               tag="!VItemL"))])
    elif position.startswith("second-document"):
        first = yt.document(yt.mapping([("pipeline", yt.seq(pipeline))]))
        if position == "second-document-after-empty":
            first = "--- {}\n"
        second = yt.document(yt.mapping([("pipeline", yt.seq(pipeline)),
                                         ("__config_test", yt.mapping([("a", node)]))]))
        return first + ("" if second.startswith("---") else "---\n") + second
    elif position.startswith("top-level-") and position.endswith("-section"):
        name = {"top-level-x-section": "x-anchors", "top-level-underscore-section": "_defaults",
                "top-level-dot-section": ".hidden",
                "top-level-null-key-section": "~"}[position]
        extra_top.append((yt.scalar(name), yt.mapping([("a", node)])))
    elif position == "second-merge-value-in-section":
        section = yt.mapping([("a", yt.mapping([
            ("<<", yt.mapping([("p", yt.py(1))])), ("k", yt.py(1)), ("<<", node)]))])
    elif position == "duplicate-key-replaced-in-section":
        section = yt.mapping([("a", yt.mapping([("k", node), ("j", yt.py(1)),
                                               ("k", yt.py(2))]))])
    elif position == "duplicate-key-replaced-in-lazy-tag-mapping-in-pipeline":
        pipeline = [yt.mapping([("k", node), ("k", yt.py(2))], tag="!VDeco1L"), pool]
    elif position == "merged-key-overridden-in-section":
        section = yt.mapping([("a", yt.mapping([
            ("<<", yt.mapping([("k", node)])), ("k", yt.py(2))]))])
    elif position.startswith("merge-"):
        plain = yt.mapping([("p", yt.py(1))])
        if position == "merge-nested-value-in-section":
            node = yt.mapping([("r", yt.py(3)), ("<<", node)])
        elif position == "merge-nested-in-list-item-in-section":
            node = yt.seq([plain, yt.mapping([("<<", node)])])
        elif position == "merge-nested-twice-in-section":
            node = yt.mapping([("<<", yt.seq([yt.mapping([("r", yt.py(3)), ("<<", node)])]))])
        elif position == "merge-list-item-in-section":
            node = yt.seq([plain, node])
        elif position == "merge-list-in-section":
            node = yt.seq([plain, yt.mapping([("q", yt.py(2))])], tag=node.tag)
        items = [("k", yt.py(1)), ("<<", node)]
        if position == "merge-value-in-lazy-tag-mapping-in-pipeline":
            pipeline = [yt.mapping(items, tag="!VDeco1L"), pool]
        elif position == "merge-value-in-eager-tag-mapping-in-section":
            section = yt.mapping([("a", yt.mapping(items, tag="!VItemE"))])
        elif position == "merge-value-in-type-mapping":
            pipeline = [yt.mapping([("__type__", yt.scalar("verif_plugins.VDeco1L"))] + items),
                        pool]
        else:
            section = yt.mapping([("a", yt.mapping(items))])
    else:
        raise ValueError(position)
    top = [("pipeline", yt.seq(pipeline))]
    if section is not None:
        top.append(("__config_test", section))
    return yt.document(yt.mapping(top + extra_top))


def case_text(case):
    spec = tuple(case["tag"])
    inner = None
    if case.get("inner"):
        inner = tagged_node(tuple(case["inner"]), "short", "seq")
    node = tagged_node(spec, case["spelling"], case["shape"], extra=inner)
    return build_document(case["position"], node)


def resolved_tag(spec):
    kind, name, target = spec
    return "!" + name if kind == "local" else PY_PREFIX + name + (target or "")


def carries_tag(text, tag):
    """Harness self check: the text is well-formed YAML and has a node with this tag"""
    import yaml

    try:
        roots = list(yaml.compose_all(text, Loader=yaml.SafeLoader))
    except yaml.YAMLError as err:
        raise RuntimeError("generated document is not YAML: %s\n%s" % (err, text))
    todo, found = [root for root in roots if root is not None], False
    while todo:
        node = todo.pop()
        found = found or node.tag == tag
        if isinstance(node, yaml.SequenceNode):
            todo.extend(node.value)
        elif isinstance(node, yaml.MappingNode):
            for key, value in node.value:
                todo.extend((key, value))
    return found


# ---------------------------------------------------------------------------------------
# canaries

_AUDIT = {"installed": False, "armed": False, "events": []}
_SPAWN_EVENTS = ("os.system", "subprocess.Popen", "os.posix_spawn", "os.exec",
                 "os.spawn", "os.fork", "os.forkpty")


def _audit(event, args):
    if not _AUDIT["armed"]:
        return
    if event in _SPAWN_EVENTS:
        _AUDIT["events"].append("%s%r" % (event, tuple(map(str, args[:2]))))
        raise RuntimeError("verif C18: %s blocked by the audit hook" % event)
    if event == "exec":
        code = args[0]
        if getattr(code, "co_filename", None) == "<string>":
            _AUDIT["events"].append("exec of a string")
    elif event == "compile":
        if len(args) > 1 and args[1] == "<string>":
            _AUDIT["events"].append("compile of a string")
    elif event == "import":
        if str(args[0]).startswith("verif_canary"):
            _AUDIT["events"].append("import %s" % args[0])


def arm():
    """Reset every canary and start watching (the hook is installed once per process)"""
    import verif_plugins as vp

    if not _AUDIT["installed"]:
        sys.addaudithook(_audit)
        _AUDIT["installed"] = True
    vp.reset()
    sys.modules.pop("verif_canary_module", None)
    try:
        os.unlink(vp.marker_path())
    except OSError:
        pass
    del _AUDIT["events"][:]
    _AUDIT["armed"] = True


def disarm():
    """Stop watching; the list of canaries that fired"""
    import verif_plugins as vp

    _AUDIT["armed"] = False
    fired = list(_AUDIT["events"])
    module = sys.modules.pop("verif_canary_module", None)
    if module is not None:
        fired.append("canary module imported")
        if getattr(module, "FIRED", None):
            fired.append("canary module function called")
    if vp.CANARY_CALLS:
        fired.append("canary callable called")
    if os.path.exists(vp.marker_path()):
        fired.append("marker file written")
        os.unlink(vp.marker_path())
    for record in vp.LOG:
        # the documents' own registered "!VPoolL" elements carry no arguments
        if record.cls == "VPoolL" and (
                CANARY_ARG in record.args or CANARY_ARG in (record.kwargs.get("args") or ())):
            fired.append("registered class instantiated through a dotted name")
    vp.reset()
    return sorted(set(fired))


def _scratch_path():
    return os.path.join(tempfile.gettempdir(), "verif_c18.%d.yaml" % os.getpid())


def load_text(text):
    """(section names of the result or None, exception or None) of the real load()"""
    from cobald.daemon.core.config import load
    import verif_plugins as vp

    path = _scratch_path()
    with open(path, "w") as stream:
        stream.write(text.replace(MARKER, vp.marker_path()))
    try:
        with load(path) as config:
            return sorted(getattr(plugin, "section", "?") for plugin in config), None
    except Exception as err:  # noqa: B902 - rejection is the expected outcome
        return None, err


def warm_up():
    """Once per process: load a document with registered tags only, so that every plugin
    module (and whatever they import) is imported before the canaries are armed"""
    if not warm_up.done:
        problem = run_control("section-value", "seq")
        if problem:
            raise RuntimeError("warm-up document does not load: " + problem)
        warm_up.done = True


warm_up.done = False


def kind_of(spec):
    return "local-tag" if spec[0] == "local" else spec[1]


def run_case(case):
    """None when the document is rejected without side effects, else (key, what)"""
    spec = tuple(case["tag"])
    text = case_text(case)
    warm_up()
    if not carries_tag(text, resolved_tag(spec)):
        raise RuntimeError("generated document lacks tag %r:\n%s" % (spec, text))
    arm()
    try:
        sections, error = load_text(text)
    finally:
        fired = disarm()
    kind = kind_of(spec)
    if fired:
        return ("side-effect:" + kind,
                "%s while loading (load %s)\n--- document ---\n%s" % (
                    "; ".join(fired),
                    "raised %s" % type(error).__name__ if error else "returned", text),
                error)
    if error is None:
        return ("accepted:" + kind,
                "load() accepted the document (sections %r)\n--- document ---\n%s"
                % (sections, text), None)
    return (None, None, error)


def run_control(position, shape):
    text = build_document(position, control_node(position, shape))
    import verif_plugins as vp

    vp.reset()
    sections, error = load_text(text)
    vp.reset()
    if error is not None:
        return "load() rejected a document with registered tags only: %s: %s\n%s" % (
            type(error).__name__, error, text)
    if "pipeline" not in sections:
        return "no pipeline in the result of\n%s" % text
    return None


def canary_selftest():
    """The canaries do fire when a permissive PyYAML loader reads such documents"""
    import yaml
    import verif_plugins as vp

    if importlib.util.find_spec("verif_canary_module") is None:
        raise RuntimeError("canary module is not importable")
    if "verif_canary_module" in sys.modules:
        raise RuntimeError("canary module is already imported")
    expectations = [
        ("a: !!python/object/apply:verif_plugins.canary [x]\n", "canary callable called"),
        ("a: !!python/object/apply:verif_plugins.canary [x]\n", "marker file written"),
        ("a: !!python/module:verif_canary_module\n", "canary module imported"),
        ("a: !!python/module:verif_canary_module\n", "import verif_canary_module"),
        ("a: !!python/object/apply:verif_canary_module.fire [x]\n",
         "canary module function called"),
        ("a: !!python/object/apply:os.system ['echo fired >> %s']\n" % vp.marker_path(),
         "os.system"),
        ("a: !!python/object/apply:subprocess.Popen [[touch, '%s']]\n" % vp.marker_path(),
         "subprocess.Popen"),
        ("a: !!python/object/apply:builtins.eval [\"1+1\"]\n", "exec of a string"),
        ("a: !!python/object/apply:verif_plugins.VPoolL [%s]\n" % CANARY_ARG,
         "registered class instantiated through a dotted name"),
    ]
    for text, expected in expectations:
        arm()
        try:
            yaml.load(text, Loader=yaml.UnsafeLoader)
        except Exception:  # noqa: B902 - blocked by the hook
            pass
        fired = disarm()
        if not any(item.startswith(expected) for item in fired):
            raise RuntimeError("canary self test: %r did not produce %r but %r"
                               % (text, expected, fired))
    return len(expectations)


# ---------------------------------------------------------------------------------------


def cases_of(shard_args):
    kind = shard_args[0]
    if kind == "single":
        spec, spellings = shard_args[1], shard_args[2]
        for spelling in spellings:
            if spelling == "verbatim" and spec[0] == "local":
                continue
            for position in POSITIONS:
                for shape in shapes_for(position):
                    yield {"tag": list(spec), "spelling": spelling,
                           "position": position, "shape": shape}
    elif kind == "nested":
        spec = shard_args[1]
        for inner in INNER_TAGS:
            for position in POSITIONS:
                for shape in ("seq", "map"):
                    if shape not in shapes_for(position):
                        continue
                    yield {"tag": list(spec), "spelling": "short", "position": position,
                           "shape": shape, "inner": list(inner)}


def child_main():
    """Runs in a fresh interpreter in which PyYAML has no libyaml extension"""
    import json

    import yaml

    results = {"with_libyaml": bool(yaml.__with_libyaml__), "cases": [], "controls": 0}
    for position in POSITIONS[:3]:
        if run_control(position, "map") is None:
            results["controls"] += 1
    for spec in all_tag_specs():
        for position in ("pipeline-head", "section-value"):
            if position not in POSITIONS:
                position = POSITIONS[0]
            for shape in ("seq", "map"):
                case = {"tag": list(spec), "spelling": "short", "position": position,
                        "shape": shape}
                key, what, error = run_case(case)
                results["cases"].append([case, key, what, type(error).__name__])
    try:
        os.unlink(_scratch_path())
    except OSError:
        pass
    sys.stdout.write("\n@@RESULT@@" + json.dumps(results))


def shard_nolibyaml(args):
    """The same rejection must not depend on PyYAML's optional C extension being present"""
    import json
    import subprocess

    from vlib.core import REPO, VERIF

    code = ("import sys; sys.modules['yaml._yaml'] = None; "
            "sys.path[:0] = [%r, %r, %r]; import checks.c18 as c; c.child_main()"
            % (VERIF, os.path.join(REPO, "src"), os.path.join(VERIF, "plugins")))
    proc = subprocess.run([sys.executable, "-c", code], capture_output=True, text=True,
                          timeout=900, cwd=VERIF)
    acc = Acc()
    if "@@RESULT@@" not in proc.stdout:
        raise RuntimeError("no-libyaml child failed: %s" % (proc.stderr[-800:],))
    results = json.loads(proc.stdout.split("@@RESULT@@")[1])
    if results["with_libyaml"]:
        raise RuntimeError("could not hide libyaml from the child interpreter")
    acc.count("no-libyaml:controls-loaded", results["controls"])
    for case, key, what, error in results["cases"]:
        case["no_libyaml"] = True
        acc.case(nontrivial_key=repr(case))
        acc.outcome(("no-libyaml", error, key))
        acc.count("no-libyaml:cases")
        if key:
            acc.violation("no-libyaml:" + key, "without the libyaml extension: " + what,
                          {"case": case})
    return acc


def shard(args):
    acc = Acc()
    if args[0] == "nolibyaml":
        return shard_nolibyaml(args)
    try:
        if args[0] == "selftest":
            acc.count("canary-selftests-passed", canary_selftest())
            return acc
        if args[0] == "controls":
            for position in POSITIONS:
                if position in NO_CONTROL:
                    continue
                for shape in shapes_for(position):
                    problem = run_control(position, shape)
                    acc.case(nontrivial_key=None)
                    acc.outcome(("control", problem is None))
                    if problem:
                        acc.violation("registered-tag-rejected:" + position, problem,
                                      {"control": [position, shape]})
                    else:
                        acc.count("controls-loaded")
            return acc
        for case in cases_of(args):
            key, what, error = run_case(case)
            acc.case(nontrivial_key=repr(case),
                     sample=case if acc.evaluations % 97 == 0 else None)
            acc.outcome((type(error).__name__, key))
            acc.count("rejected-with:" + type(error).__name__)
            if key:
                acc.violation(key, what, {"case": case})
    finally:
        try:
            os.unlink(_scratch_path())
        except OSError:
            pass
    return acc


def run(ctx):
    specs = all_tag_specs()
    spellings = ["short"] if ctx.quick else ["short", "verbatim"]
    shards = [("selftest",), ("controls",), ("nolibyaml",)]
    shards += [("single", spec, spellings) for spec in specs]
    if not ctx.quick:
        shards += [("nested", spec) for spec in specs]
    ctx.pmap(shard, shards)
    exact, multi = python_tags()
    ctx.meta.update(
        rule="documents with one forbidden tag: every python/* tag of the installed PyYAML "
             "(%d exact: %s; %d prefixes: %s, each with every target of %r) and local tags "
             "(!Foo and !<target>) x position in %r x node shape in %r%s; each loaded with "
             "load(path); controls: the same positions x shapes with a registered tag / "
             "plain data must load; every case is non-trivial (well-formedness and presence "
             "of the tag are verified with yaml.compose); distinct by the full case"
             % (len(exact), ", ".join(exact), len(multi), ", ".join(multi), TARGETS,
                POSITIONS, SHAPES,
                "" if ctx.quick else " x spelling in {!!tag, !<verbatim>}; plus documents "
                "with a second forbidden tag (%d kinds) nested in the first" % len(INNER_TAGS)),
        exhaustive=True,
        bounds={"tags": len(specs), "positions": len(POSITIONS), "shapes": SHAPES,
                "spellings": spellings, "nested_second_tags": 0 if ctx.quick else len(INNER_TAGS),
                "pyyaml": __import__("yaml").__version__},
    )
    if ctx.acc.counters.get("controls-loaded", 0) != sum(
            len(shapes_for(position)) for position in POSITIONS
            if position not in NO_CONTROL) and \
            not ctx.acc.violations:
        raise RuntimeError("controls did not run")
    if ctx.acc.counters.get("canary-selftests-passed", 0) < 9:
        raise RuntimeError("canary self test did not run")
    ctx.assumptions += [
        "the legacy `__type__: dotted.name` mappings of the pipeline section import and "
        "call arbitrary names by design (documented, exercised by C05/C19); the statement's "
        "rejection clause is about python/* tags and unregistered tags, only those are "
        "enumerated",
        "which exception type rejects the document is not fixed by the statement; any "
        "Exception from load() counts as rejection (types are reported as outcomes)",
        "the audit hook blocks process creation (so a permissive loader cannot run "
        "commands from the check) and reports exec/compile of '<string>' code, imports of "
        "the canary module and process creation while load() runs; plugin modules are "
        "imported by a warm-up load before the hook is armed",
        "tag kinds are those of the installed PyYAML %s" % __import__("yaml").__version__,
    ]


def replay(data):
    if "control" in data:
        return run_control(*data["control"])
    if data["case"].get("no_libyaml"):
        acc = shard_nolibyaml(("nolibyaml",))
        return "; ".join(v["what"] for v in acc.violations[:3]) or None
    key, what, _ = run_case(data["case"])
    return None if key is None else "%s: %s" % (key, what)
