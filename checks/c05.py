"""
C05 - a YAML pipeline section builds the chain it describes.

Bounded-exhaustive enumeration (smallscope) of YAML *documents*: pipelines of n elements,
every assignment of the syntactic forms (``!Tag`` mapping / ``!Tag`` sequence / bare
``!Tag`` / ``__type__`` mapping with keyword items; the tail additionally ``__type__`` with
``__args__``) to the positions, argument values rotating through {int, str, nested list,
nested mapping, nested eager tag, nested lazy tag}, lazily / eagerly evaluated pipeline
classes alternating over the positions, block / flow notation, and optionally one position
whose constructor raises.  For n <= 2 additionally every arity 0..2 with the full product
of argument values.

Each document is written by ``vlib.yamltext`` (not by PyYAML), loaded through the real
``cobald.daemon.core.config.load(path)`` and through
``load_pipeline(yaml.load(text, COBalDLoader)["pipeline"])``.  The recording plugin classes
of ``/verif/plugins/verif_plugins.py`` are found by cobald's own entry point discovery.
The result is compared with expectations computed from the case description alone, and
with the pipeline built in Python with ``>>``.
"""
import functools
import itertools
import operator
import os
import tempfile

from vlib.core import Acc
from vlib import yamltext as yt

VALUE_KINDS = ["int", "str", "list", "map", "eager", "lazy", "typed", "eagerseq", "bareitem",
               "omap", "set", "misc"]
HEAD_FORMS = ["tagmap", "tagseq", "bare", "typemap"]
TAIL_FORMS = HEAD_FORMS + ["typeargs"]
KEYS = ["k", "m"]
STYLES = ["block", "flow"]


# ---------------------------------------------------------------------------------------
# the case description and what it means (reference side: plain Python)
#
# case = {"elements": [{"cls": name, "form": form, "args": [kind...],
#                       "kwargs": {name: kind}}...], "fail": index or None, "style": style}


def value_py(kind, form=None):
    """A fresh Python value of the given kind (as argument of an element written in ``form``)"""
    import verif_plugins as vp

    if kind == "typed":
        # a nested legacy __type__ mapping: translated inside __type__ elements only,
        # plain data inside !Tag elements
        if form in ("typemap", "typeargs"):
            return vp.VItemL(c=[3])
        return {"__type__": "verif_plugins.VItemL", "c": [3]}

    if kind == "int":
        return 3
    if kind == "str":
        return "s t"
    if kind == "list":
        return [1, ["x", 2]]
    if kind == "map":
        return {"p": {"q": 1}, "r": [2]}
    if kind == "eager":
        return vp.VItemE(a=[1, [2]], b={"c": "x"})
    if kind == "lazy":
        return vp.VItemL([1, 2], {"c": [3]})
    if kind == "eagerseq":
        return vp.VItemE([10, [20]], {"d": {"e": 1}}, 30)
    if kind == "bareitem":
        return vp.VItemL()
    if kind == "omap":
        # YAML's ordered mapping: a list of (key, value) tuples
        return [("a", 1), ("b", [2, ("c", 3)][:1])]
    if kind == "set":
        return {"x", "y"}
    if kind == "misc":
        import datetime

        return [None, True, 1.5, float("inf"), b"hi", datetime.date(2020, 1, 2), ""]
    raise ValueError(kind)


def value_node(kind, flow):
    """The same value as YAML"""
    if kind == "eager":
        return yt.mapping(
            [("a", yt.py([1, [2]], flow)), ("b", yt.py({"c": "x"}, flow))],
            tag="!VItemE", flow=flow)
    if kind == "lazy":
        return yt.seq([yt.py([1, 2], flow), yt.py({"c": [3]}, flow)],
                      tag="!VItemL", flow=flow)
    if kind == "eagerseq":
        return yt.seq([yt.py([10, [20]], flow), yt.py({"d": {"e": 1}}, flow), yt.py(30, flow)],
                      tag="!VItemE", flow=flow)
    if kind == "bareitem":
        return yt.scalar("", tag="!VItemL")
    if kind == "omap":
        return yt.seq([yt.mapping([("a", yt.py(1))], flow=flow),
                       yt.mapping([("b", yt.py([2], flow))], flow=flow)],
                      tag="!!omap", flow=flow)
    if kind == "set":
        return yt.mapping([("x", yt.scalar("null")), ("y", yt.scalar("null"))],
                          tag="!!set", flow=flow)
    if kind == "misc":
        return yt.seq([yt.scalar("~"), yt.scalar("true"), yt.scalar("1.5"), yt.scalar(".inf"),
                       yt.scalar("aGk=", tag="!!binary"), yt.scalar("2020-01-02"),
                       yt.scalar('""')], flow=flow)
    if kind == "typed":
        return yt.mapping([("__type__", yt.scalar("verif_plugins.VItemL")),
                           ("c", yt.py([3], flow))], flow=flow)
    return yt.py(value_py(kind), flow)


def norm(value):
    """Type-faithful, comparable form of an argument value"""
    import verif_plugins as vp

    if isinstance(value, vp.ITEM_CLASSES):
        return ["item", type(value).__name__, [norm(v) for v in value.args],
                {k: norm(v) for k, v in value.kwargs.items()}]
    if isinstance(value, dict):
        return ["dict", {repr(k): norm(v) for k, v in value.items()}]
    if isinstance(value, list):
        return ["list", [norm(v) for v in value]]
    if isinstance(value, tuple):
        return ["tuple", [norm(v) for v in value]]
    if isinstance(value, (set, frozenset)):
        return [type(value).__name__, sorted(norm(v) for v in value)]
    if type(value) is bytes:
        return ["bytes", value.decode("latin-1")]
    if type(value).__name__ in ("date", "datetime"):
        return [type(value).__name__, value.isoformat()]
    if value is None or type(value) in (bool, int, float, str):
        return [type(value).__name__, value]
    return ["other", type(value).__name__]


def items_in(value, found):
    """The nested tag objects inside an argument value"""
    import verif_plugins as vp

    if isinstance(value, vp.ITEM_CLASSES):
        found.append(value)
        value = [value.args, value.kwargs]
    if isinstance(value, dict):
        value = list(value.values())
    if isinstance(value, (list, tuple)):
        for inner in value:
            items_in(inner, found)
    return found


def expected_call(element):
    """Normalised (args, kwargs) an element must be constructed with (target aside)"""
    form = element["form"]
    return ([norm(value_py(kind, form)) for kind in element["args"]],
            {name: norm(value_py(kind, form)) for name, kind in element["kwargs"].items()})


def element_node(element, style):
    """The YAML node of one pipeline element; with "anchor" the node is anchored (&name),
    with "alias" it is written as *name only (the element repeats an anchored one)"""
    if element.get("alias"):
        return yt.scalar("*" + element["alias"])
    node = _element_node(element, style)
    if element.get("anchor"):
        node.tag = ("&%s %s" % (element["anchor"], node.tag or "")).strip()
    return node


def _element_node(element, style):
    flow = style == "flow"
    form, cls = element["form"], element["cls"]
    args = [value_node(kind, flow) for kind in element["args"]]
    kwargs = [(name, value_node(kind, flow)) for name, kind in element["kwargs"].items()]
    merge = element.get("merge")
    if merge and kwargs:
        # the keyword items arrive through a merge key: "<<: {k: ..}", "<<: [{k: ..}, ..]",
        # or "<<: &name {..}" at the first and "<<: *name" at a later element
        first, rest = kwargs[:1], kwargs[1:]
        if merge == "inline":
            kwargs = [("<<", yt.mapping(first, flow=flow))] + rest
        elif merge == "list":
            kwargs = [("<<", yt.seq([yt.mapping([item], flow=flow) for item in kwargs],
                                    flow=flow))]
        elif merge == "anchor":
            source = yt.mapping(kwargs, flow=flow)
            source.tag = "&merged"
            kwargs = [("<<", source)]
        else:
            assert merge == "alias"
            kwargs = [("<<", yt.scalar("*merged"))]
    if form == "tagmap":
        assert not args
        return yt.mapping(kwargs, tag="!" + cls, flow=flow)
    if form == "tagseq":
        assert not kwargs
        return yt.seq(args, tag="!" + cls, flow=flow)
    if form == "bare":
        assert not args and not kwargs
        return yt.scalar("", tag="!" + cls)
    items = [("__type__", yt.scalar("verif_plugins." + cls))]
    if form == "typeargs":
        items.append(("__args__", yt.seq(args, flow=flow)))
    else:
        assert form == "typemap" and not args
    return yt.mapping(items + kwargs, flow=flow)


def document_text(case):
    return yt.document(yt.mapping([
        ("pipeline", yt.seq([element_node(e, case["style"]) for e in case["elements"]])),
    ]))


def python_pipeline(case):
    """The same pipeline written in Python: ``A.s(...) >> B.s(...) >> Pool(...)``

    Returns (list of objects head..pool or None, construction log, exception or None)"""
    import verif_plugins as vp

    vp.reset()
    error, objects = None, None
    try:
        parts = []
        for element in case["elements"][:-1]:
            parts.append(getattr(vp, element["cls"]).s(
                *[value_py(kind, element["form"]) for kind in element["args"]],
                **{name: value_py(kind, element["form"])
                   for name, kind in element["kwargs"].items()}))
        tail = case["elements"][-1]
        parts.append(getattr(vp, tail["cls"])(
            *[value_py(kind, tail["form"]) for kind in tail["args"]],
            **{name: value_py(kind, tail["form"]) for name, kind in tail["kwargs"].items()}))
        head = functools.reduce(operator.rshift, parts)
        objects = [head]
        while hasattr(objects[-1], "target") and len(objects) <= len(parts):
            objects.append(objects[-1].target)
    except vp.FAIL_WITH as err:
        error = err
    log = list(vp.LOG)
    vp.reset()
    return objects, log, error


# ---------------------------------------------------------------------------------------
# the implementation side


def _scratch_path():
    return os.path.join(tempfile.gettempdir(), "verif_c05.%d.yaml" % os.getpid())


def load_via(entry, text):
    """(pipeline list or None, exception or None) from one of the two entry points"""
    from cobald.daemon.core.config import (
        load, load_pipeline, COBalDLoader, add_constructor_plugins,
    )

    try:
        if entry == "load":
            path = _scratch_path()
            with open(path, "w") as stream:
                stream.write(text)
            with load(path) as config:
                found = [content for plugin, content in config.items()
                         if getattr(plugin, "section", None) == "pipeline"]
            if len(found) != 1:
                return None, LookupError(
                    "load() result has %d 'pipeline' entries" % len(found))
            return found[0], None
        import yaml

        if not load_via.registered:
            add_constructor_plugins("cobald.config.yaml_constructors", COBalDLoader)
            load_via.registered = True
        return load_pipeline(yaml.load(text, COBalDLoader)["pipeline"]), None
    except Exception as err:  # noqa: B902 - any error is a legitimate outcome to judge
        return None, err


load_via.registered = False


def describe(objects):
    return [type(obj).__name__ for obj in objects]


def judge(case, result, error, log, attempts):
    """None, or (key, description): the oracle of DESIGN.md C05"""
    from cobald.interfaces import Pool

    elements, fail = case["elements"], case["fail"]
    size = len(elements)
    forms = [element["form"] for element in elements]
    if fail is not None:
        if error is None:
            return ("failing-constructor-ignored:" + forms[fail],
                    "constructor of element %d raises, yet loading returned %r"
                    % (fail, describe(result) if isinstance(result, list) else result))
        expect_positions = list(range(size - 1, fail, -1))
    else:
        if error is not None:
            return ("unexpected-error:%s" % type(error).__name__,
                    "loading raised %s: %s" % (type(error).__name__, error))
        expect_positions = list(range(size - 1, -1, -1))
    # construction log: each once, last to first, exactly the configured arguments
    built = [record.cls for record in log]
    want_built = [elements[pos]["cls"] for pos in expect_positions]
    if built != want_built:
        if sorted(built) == sorted(want_built):
            key = "construction-order"
        elif len(built) > len(set(built)):
            twice = next(name for name in built if built.count(name) > 1)
            key = "constructed-twice:" + next(
                e["form"] for e in elements if e["cls"] == twice)
        else:
            key = "constructed-set"
        return (key, "constructed (in this order) %r, expected %r" % (built, want_built))
    for record, pos in zip(log, expect_positions):
        want_args, want_kwargs = expected_call(elements[pos])
        got_args = [norm(v) for v in record.args]
        got_kwargs = {k: norm(v) for k, v in record.kwargs.items()}
        if got_args != want_args or got_kwargs != want_kwargs:
            return ("arguments:" + forms[pos],
                    "element %d (%s) constructed with args=%r kwargs=%r, configured "
                    "args=%r kwargs=%r" % (pos, record.cls, got_args, got_kwargs,
                                           want_args, want_kwargs))
        want_target = None if pos == size - 1 else log[expect_positions.index(pos + 1)].obj
        if record.target is not want_target:
            return ("constructed-with-wrong-target:%s-before-%s" % (
                        forms[pos], forms[pos + 1] if pos + 1 < size else "end"),
                    "element %d (%s) constructed with target %s, the next element is %s"
                    % (pos, record.cls, type(record.target).__name__,
                       type(want_target).__name__))
    # "exactly the configured arguments": a nested tag is an object of its own, made while
    # this document was loaded - not one that another element or an earlier load got
    import verif_plugins as vp

    owners = {}
    for record, pos in zip(log, expect_positions):
        if elements[pos].get("alias") or elements[pos].get("merge") in ("anchor", "alias"):
            continue   # an alias repeats the anchored node, nested objects included
        for item in items_in([record.args, record.kwargs], []):
            if not any(item is made for made in vp.ITEMS):
                return ("nested-tag-object-from-elsewhere:" + forms[pos],
                        "element %d (%s) got the nested %r, which was not constructed "
                        "while loading this document" % (pos, record.cls, item))
            if owners.setdefault(id(item), pos) != pos:
                return ("nested-tag-object-shared:" + forms[pos],
                        "elements %d and %d share one nested object %r"
                        % (owners[id(item)], pos, item))
    if fail is not None:
        if len(attempts) != 1 or attempts[0][0] != elements[fail]["cls"]:
            return ("failing-constructor-calls:" + forms[fail],
                    "failing constructor called %r, expected one call of %s"
                    % ([a[0] for a in attempts], elements[fail]["cls"]))
        want_target = log[-1].obj if fail < size - 1 else None
        if attempts[0][1] is not want_target:
            return ("constructed-with-wrong-target:%s-before-%s" % (
                        forms[fail], forms[fail + 1] if fail + 1 < size else "end"),
                    "failing element %d constructed with target %s, the next element "
                    "is %s" % (fail, type(attempts[0][1]).__name__,
                               type(want_target).__name__))
        return None
    if attempts:
        return ("constructed-set", "unexpected constructor calls %r" % (attempts,))
    # the returned list: n objects in configuration order, linked by identity
    if not isinstance(result, list) or len(result) != size:
        return ("result-length", "pipeline section is %r, expected %d objects"
                % (describe(result) if isinstance(result, list) else result, size))
    for pos, (obj, record) in enumerate(zip(result, reversed(log))):
        if obj is not record.obj:
            return ("result-element:" + forms[pos],
                    "result[%d] is %r, not the constructed %s"
                    % (pos, obj, elements[pos]["cls"]))
    for pos in range(size - 1):
        if getattr(result[pos], "target", None) is not result[pos + 1]:
            return ("wrong-target:%s-before-%s" % (forms[pos], forms[pos + 1]),
                    "result[%d].target is %r, not result[%d]"
                    % (pos, getattr(result[pos], "target", None), pos + 1))
    if not isinstance(result[-1], Pool) or hasattr(result[-1], "target"):
        return ("tail-not-pool", "last element %r is not the pool" % (result[-1],))
    return None


def judge_against_python(case, result, error, log):
    """Equality with the pipeline built with ``>>`` (types, arguments, order)"""
    objects, py_log, py_error = python_pipeline(case)

    def calls(records):
        return [(r.cls, [norm(v) for v in r.args],
                 {k: norm(v) for k, v in r.kwargs.items()},
                 type(r.target).__name__) for r in records]

    if (py_error is None) != (error is None):
        return ("python-chain-differs",
                "built with >>: %r, loaded from YAML: %r" % (py_error, error))
    if calls(py_log) != calls(log):
        return ("python-chain-differs", "constructions with >>: %r, from YAML: %r"
                % (calls(py_log), calls(log)))
    if py_error is None and describe(objects) != describe(result):
        return ("python-chain-differs", "chain with >>: %r, from YAML: %r"
                % (describe(objects), describe(result)))
    return None


def run_case(case, entries=("load", "load_pipeline")):
    """None when the property holds for this document, else (key, description)"""
    import verif_plugins as vp

    text = document_text(case)
    vp.FAIL_WITH = FAIL_WITH[case.get("fail_with", "VerifConstructionError")]
    for entry in entries:
        vp.reset()
        result, error = load_via(entry, text)
        log, attempts = list(vp.LOG), list(vp.ATTEMPTS)
        problem = judge(case, result, error, log, attempts) or judge_against_python(
            case, result, error, log)
        vp.reset()
        if problem:
            return (problem[0], "via %s: %s\n--- document ---\n%s" % (
                entry, problem[1], text))
    return None


# ---------------------------------------------------------------------------------------
# enumeration


class _Late(dict):
    def __missing__(self, name):
        import verif_plugins as vp

        return {"VerifConstructionError": vp.VerifConstructionError, "KeyError": KeyError,
                "TypeError": TypeError, "AttributeError": AttributeError,
                "LookupError": LookupError}[name]


#: exception classes a failing constructor raises (by name, resolved late)
FAIL_WITH = _Late()
FAIL_KINDS = ["VerifConstructionError", "KeyError", "TypeError", "AttributeError"]


def class_name(pos, size, parity, failing):
    if pos == size - 1:
        base = "VPool"
    elif pos == 0:
        base = "VCtrl"
    else:
        base = "VDeco"
    if failing:
        return base + "Fail"
    if base == "VDeco":
        base += str(pos)
    return base + ("E" if (pos + parity) % 2 == 0 else "L")


def grid_element(form, slot, pattern):
    """Main grid: arity two, values rotate with the slot and the document's pattern"""
    count = len(VALUE_KINDS)
    kinds = [VALUE_KINDS[(pattern + slot) % count], VALUE_KINDS[(pattern + slot + 1) % count]]
    if form in ("tagmap", "typemap"):
        return [], dict(zip(KEYS, kinds))
    if form == "tagseq":
        return kinds, {}
    if form == "typeargs":
        return kinds[:1], {"k": kinds[1]}
    return [], {}


def make_case(forms, arguments, parity, style, fail):
    size = len(forms)
    return {
        "elements": [
            {"cls": class_name(pos, size, parity, pos == fail), "form": form,
             "args": list(args), "kwargs": dict(kwargs)}
            for pos, (form, (args, kwargs)) in enumerate(zip(forms, arguments))
        ],
        "fail": fail, "style": style,
    }


BOTH = ("load", "load_pipeline")


def grid_cases(prefix, size, parity, style, all_patterns_fail):
    """All (document, entry points) of the main grid whose forms start with ``prefix``

    Every document goes through load_pipeline(); those of up to four elements, and longer
    ones with value rotation 0, also through load(path) (five times the cost)."""
    rest = size - len(prefix)
    if rest == 0:
        tails = [()]
    else:
        tails = [
            tuple(middle) + (tail,)
            for middle in itertools.product(HEAD_FORMS, repeat=rest - 1)
            for tail in TAIL_FORMS
        ]
    for suffix in tails:
        forms = tuple(prefix) + suffix
        for pattern in range(len(VALUE_KINDS)):
            arguments = [grid_element(form, 2 * pos, pattern)
                         for pos, form in enumerate(forms)]
            entries = BOTH if size <= 4 or pattern == 0 else BOTH[1:]
            yield make_case(forms, arguments, parity, style, None), entries
            if pattern == 0 or all_patterns_fail:
                for fail in range(size):
                    for fail_with in (FAIL_KINDS if pattern == 0 else FAIL_KINDS[:1]):
                        case = make_case(forms, arguments, parity, style, fail)
                        case["fail_with"] = fail_with
                        yield case, entries


def repeat_cases(size, parity, style):
    """One element written at two positions of the same pipeline: as a plain repetition of
    the same text, or anchored (&r) at the first and aliased (*r) at the second position.
    Each position is an element of its own: constructed once, linked to its own successor"""
    for first, second in itertools.combinations(range(size - 1), 2):
        for form in HEAD_FORMS:
            for others in HEAD_FORMS:
                forms = [others] * (size - 1) + ["tagseq"]
                forms[first] = forms[second] = form
                for pattern in range(len(VALUE_KINDS)):
                    arguments = [grid_element(f, 2 * pos, pattern)
                                 for pos, f in enumerate(forms)]
                    arguments[second] = arguments[first]
                    for mode in ("copy", "alias"):
                        for fail in (None, first, second):
                            if fail is not None and pattern:
                                continue
                            case = make_case(forms, arguments, parity, style, None)
                            elements = case["elements"]
                            elements[second]["cls"] = elements[first]["cls"] = (
                                "VDecoFail" if fail is not None else
                                "VDeco1" + ("E" if (first + parity) % 2 == 0 else "L"))
                            if fail is not None:
                                # both positions name the failing class: the one further
                                # back is constructed first and stops the load
                                case["fail"] = second
                            if mode == "alias":
                                elements[first]["anchor"] = "r"
                                elements[second]["alias"] = "r"
                            case["repeat"] = [first, second, mode]
                            yield case, BOTH


def merge_cases(size, parity, style):
    """Keyword items supplied through YAML merge keys, in !Tag mappings and __type__
    mappings alike (the two notations stay interchangeable)"""
    for forms in itertools.product(("tagmap", "typemap"), repeat=size):
        for pattern in range(len(VALUE_KINDS)):
            arguments = [grid_element(form, 2 * pos, pattern)
                         for pos, form in enumerate(forms)]
            for merge in ("inline", "list", "anchor"):
                for fail in [None] + (list(range(size)) if pattern == 0 else []):
                    case = make_case(forms, arguments, parity, style, fail)
                    for pos, element in enumerate(case["elements"]):
                        element["merge"] = merge
                    if merge == "anchor":
                        # one set of keyword items, written once and merged everywhere
                        for element in case["elements"][:-1]:
                            element["kwargs"] = dict(case["elements"][-1]["kwargs"])
                            element["merge"] = "alias"
                        # the tail comes first in construction, not in the text: anchor at
                        # the head, aliases behind it
                        head = case["elements"][0]
                        head["kwargs"] = dict(case["elements"][-1]["kwargs"])
                        head["merge"] = "anchor"
                        for element in case["elements"][1:]:
                            element["kwargs"] = dict(head["kwargs"])
                            element["merge"] = "alias"
                    case["family"] = "merge"
                    yield case, BOTH


def falsy_cases(size, parity, style):
    """An element that is falsy once constructed (an empty container-like decorator, a pool
    that reports False) is an element like any other"""
    for position in range(1, size):
        for forms in itertools.product(HEAD_FORMS, repeat=size):
            for pattern in (0, 3):
                arguments = [grid_element(form, 2 * pos, pattern)
                             for pos, form in enumerate(forms)]
                case = make_case(forms, arguments, parity, style, None)
                element = case["elements"][position]
                if position == size - 1:
                    element["cls"] = "VPoolZL"
                else:
                    element["cls"] = "VDecoZ" + ("E" if (position + parity) % 2 == 0 else "L")
                case["family"] = "falsy"
                yield case, BOTH


def tail_target_cases(size, parity, style):
    """The pool may have a parameter of any name - also one called ``target`` (the address
    of a remote pool, say): for the last element it is a keyword like any other"""
    for forms in itertools.product(HEAD_FORMS, repeat=size - 1):
        for tail_form in ("tagmap", "typemap", "typeargs"):
            for pattern in (0, 4, 9):
                all_forms = tuple(forms) + (tail_form,)
                arguments = [grid_element(form, 2 * pos, pattern)
                             for pos, form in enumerate(all_forms)]
                args, kwargs = arguments[-1]
                kinds = list(kwargs.values()) or ["int"]
                arguments[-1] = (args, {"target": kinds[0], "k": kinds[-1]})
                case = make_case(all_forms, arguments, parity, style, None)
                case["family"] = "tail-target-keyword"
                yield case, BOTH


def small_options(tail, max_arity):
    """Every (form, args, kwargs) of one element with arity 0..max_arity"""
    options = [("bare", (), {})]
    for arity in range(max_arity + 1):
        for kinds in itertools.product(VALUE_KINDS, repeat=arity):
            options.append(("tagmap", (), dict(zip(KEYS, kinds))))
            options.append(("tagseq", kinds, {}))
            options.append(("typemap", (), dict(zip(KEYS, kinds))))
            if tail:
                options.append(("typeargs", kinds, {}))
                if arity >= 1:
                    options.append(("typeargs", kinds[:-1], {"k": kinds[-1]}))
    return options


def small_cases(size, first_index, max_arity, parity, style):
    """n <= 2, full product of values; sharded by the first element's option"""
    firsts = small_options(size == 1, max_arity)
    first = firsts[first_index]
    seconds = small_options(True, max_arity) if size == 2 else [None]
    for second in seconds:
        options = [first] if second is None else [first, second]
        forms = [o[0] for o in options]
        arguments = [(o[1], o[2]) for o in options]
        for fail in [None] + list(range(size)):
            yield make_case(forms, arguments, parity, style, fail), BOTH


def shard(args):
    acc = Acc()
    kind = args[0]
    if kind == "grid":
        cases = grid_cases(*args[1:])
    elif kind == "repeat":
        cases = repeat_cases(*args[1:])
    elif kind == "merge":
        cases = merge_cases(*args[1:])
    elif kind == "falsy":
        cases = falsy_cases(*args[1:])
    elif kind == "tail-target":
        cases = tail_target_cases(*args[1:])
    else:
        cases = small_cases(*args[1:])
    try:
        for case, entries in cases:
            problem = run_case(case, entries)
            size = len(case["elements"])
            acc.case(
                nontrivial_key=repr(case) if size >= 2 else None,
                sample=case if size >= 3 and acc.counters.get("documents", 0) % 251 == 0 else None,
                n=len(entries),  # one evaluation per entry point
            )
            acc.count("documents")
            for entry in entries:
                acc.count("loaded-via-" + entry)
            acc.count("documents-with-failing-constructor" if case["fail"] is not None
                      else "documents-loading")
            acc.outcome((size, case["fail"] is None, problem is None))
            if problem:
                acc.violation(problem[0], problem[1], {"case": case})
    finally:
        try:
            os.unlink(_scratch_path())
        except OSError:
            pass
    return acc


def run(ctx):
    max_size = 4 if ctx.quick else 5
    small_arity = {1: 2, 2: 1}  # number of elements -> largest arity, full value product
    shards = []
    # quick: lazy-first + block, eager-first + flow; thorough: the full 2 x 2 product
    variants = [(0, "block"), (1, "flow")] if ctx.quick else [
        (parity, style) for parity in (0, 1) for style in STYLES]
    for parity, style in variants:
        for size in range(1, max_size + 1):
            # shard by the forms of the first (up to two) non-tail positions
            depth = min(2, size - 1)
            for prefix in itertools.product(HEAD_FORMS, repeat=depth):
                shards.append(("grid", prefix, size, parity, style, not ctx.quick))
        for size in (1, 2):
            count = len(small_options(size == 1, small_arity[size]))
            for index in range(count):
                shards.append(("small", size, index, small_arity[size], parity, style))
        for size in (3, 4):
            shards.append(("repeat", size, parity, style))
        for size in (1, 2, 3):
            shards.append(("merge", size, parity, style))
        for size in (2, 3, 4):
            shards.append(("falsy", size, parity, style))
        for size in (1, 2, 3):
            shards.append(("tail-target", size, parity, style))
    ctx.pmap(shard, shards, chunksize=1)
    ctx.meta.update(
        rule="YAML documents with a pipeline of n elements: every assignment of the forms "
             "%r (tail also 'typeargs' = __type__ with __args__) to the positions x the "
             "rotations of the argument values %r (two arguments per element) x "
             "lazy/eager classes alternating over positions (2 parities) x %r notation "
             "(quick: parity 0 with block, parity 1 with flow; thorough: 2 x 2) x "
             "failing position in {none, 0..n-1} (%s); plus the full product of argument "
             "values for n = 1 with every arity 0..2 and n = 2 with every arity 0..1; "
             "every document through load_pipeline(yaml.load(text, COBalDLoader)), those "
             "with n <= 4 (and n = 5 with value rotation 0) also through load(path); "
             "plus, for n in {3, 4}: one element at two of the non-tail positions (every "
             "pair) in every form, as the same text twice or as anchor + alias, x the "
             "form of the other elements x the value rotations; "
             "for n <= 3 with the forms !Tag mapping / __type__ mapping: the keyword items "
             "written through merge keys (inline mapping, list of mappings, anchor + "
             "aliases); for n in {2, 3, 4}: an element that is falsy once constructed at "
             "every position behind the head; "
             "for n <= 3: the pool with a keyword item called target; "
             "non-trivial = at least two elements (something is linked); distinct by the "
             "full case"
             % (HEAD_FORMS, VALUE_KINDS, STYLES,
                "failing positions with value rotation 0 only" if ctx.quick
                else "with every value rotation"),
        exhaustive=True,
        bounds={"max_elements": max_size, "arguments_per_element": 2,
                "full_value_product_max_arity_by_elements": small_arity,
                "value_kinds": VALUE_KINDS, "entry_points": ["load", "load_pipeline"]},
    )
    ctx.assumptions += [
        "__type__ mappings on non-tail positions carry keyword items only (statement; "
        "__args__ there collides with the injected target by design)",
        "argument values are compared after the document is loaded completely (lazily "
        "evaluated tags fill nested containers later); construction time snapshots of "
        "eager tags are not part of the property",
        "head is a Controller, inner elements PoolDecorators, the tail a Pool; keyword "
        "names are not 'target'; nested __type__ mappings inside arguments belong to C19",
        "with a failing constructor: load raises, the elements behind the failing one "
        "were constructed once each, last to first, correctly linked, and the failing "
        "constructor was called once; which exception type surfaces is not fixed",
    ]


def replay(data):
    problem = run_case(data["case"])
    return None if problem is None else "%s: %s" % problem
