"""
C07 - composite pools conserve demand and aggregate their children faithfully.

Engine: smallscope.  Real UniformComposite / WeightedComposite objects over settable child
pools; two exhaustive parts, both on the real code with the same oracle:

grid       every ordered tuple of 0..3 children over the full attribute grid
           (supply x utilisation x allocation), every composite kind, the freshly built
           composite and every demand write on it (thorough: every pair of writes).
histories  BFS over operation histories {write D, set one attribute of one child, append a
           child, remove a child} to the depth bound from every multiset of 0..3 children
           of a small set of child kinds; set-operations use the full value grid.  States
           are deduplicated by what the composites read (demand, and per child demand /
           supply / utilisation / allocation, in order).

The oracle is the property text: right after a write with at least one child the
children's demands sum to D, each share is D * w_i / sum(w) (D / n for the uniform
composite or when the weights sum to zero), 0 <= share <= D, the composite reads back
exactly D; in every state supply is the sum of the children's, and utilisation /
allocation lie in the range spanned by the children's values or equal a documented
fallback whose condition holds.
"""
import itertools
import math

from vlib.core import Acc

from cobald.interfaces import Pool

SUPPLY = [0, 1, 3, 1e-100, 1e100]
FITNESS = [0, 0.25, 1]
DEMANDS = [0, 1, 7, 0.1, 1e100]
LABELS = ["uniform", "weighted:supply", "weighted:utilisation", "weighted:allocation"]
ATTRS = ("supply", "utilisation", "allocation")
VALUES = {"supply": SUPPLY, "utilisation": FITNESS, "allocation": FITNESS}
#: every child kind (supply, utilisation, allocation)
GRID = [(s, u, a) for s in SUPPLY for u in FITNESS for a in FITNESS]
#: child kinds of the initial states / appended children of the history search: every
#: weight attribute is zero in one and non-zero in another, all magnitudes occur
KINDS = [(0, 0, 0), (1, 0.25, 1), (3, 1, 0.25), (0, 1, 0), (1e-100, 1, 1),
         (1e100, 0.25, 0.25)]
MAX_CHILDREN = 3
#: scenarios with at most this many initial children are searched one level deeper
DEEPER = 1
REL = 1e-9


class Child(Pool):
    """Pool with every attribute settable (like cobald_tests.mock.pool.FullMockPool)"""

    demand, supply, utilisation, allocation = 0, 0, 0, 0

    def __init__(self, supply, utilisation, allocation):
        self.demand = 0
        self.supply = supply
        self.utilisation = utilisation
        self.allocation = allocation


# ---------------------------------------------------------------------------------------
# driving the real objects


class ValueChild(Child):
    """Pools that compare (and hash) by what kind of pool they are, not by identity: two
    children of one kind are equal, yet they are two children"""

    def __init__(self, supply, utilisation, allocation):
        super().__init__(supply, utilisation, allocation)
        self.kind = (supply, utilisation, allocation)

    def __eq__(self, other):
        return isinstance(other, ValueChild) and self.kind == other.kind

    def __hash__(self):
        return hash(self.kind)


def build(label, children, child_class=None):
    from cobald.composite.uniform import UniformComposite
    from cobald.composite.weighted import WeightedComposite

    mine = [(child_class or Child)(*kind) for kind in children]
    if label == "uniform":
        composite = UniformComposite(*mine)
    else:
        composite = WeightedComposite(*mine, weight=label.split(":")[1])
    return composite, mine


def apply(composite, mine, op):
    """Perform one operation through the public interface; ``mine`` is the harness' own
    record of the children (the oracle never trusts ``composite.children``)"""
    what = op[0]
    if what == "write":
        composite.demand = op[1]
    elif what == "set":
        setattr(mine[op[1]], op[2], op[3])
    elif what == "append":
        child = Child(*op[1])
        composite.children.append(child)
        mine.append(child)
    elif what == "remove":
        composite.children.remove(mine[op[1]])
        del mine[op[1]]
    else:
        raise ValueError(op)


def canon(composite, mine):
    return (composite.demand,
            tuple((c.demand, c.supply, c.utilisation, c.allocation) for c in mine))


# ---------------------------------------------------------------------------------------
# oracle (from the property statement)


def close(got, want):
    if got == want:
        return True
    try:
        return abs(got - want) <= REL * max(abs(got), abs(want))
    except TypeError:
        return False


def weights(label, mine):
    if label == "uniform":
        return None
    attr = label.split(":")[1]
    return [getattr(child, attr) for child in mine]


def check_write(label, composite, mine, demand):
    """Clauses that hold right after ``composite.demand = demand``"""
    got = composite.demand
    if type(got) is not type(demand) or got != demand:
        return "readback", "composite.demand reads back %r after writing %r" % (got, demand)
    count = len(mine)
    if not count:
        return None
    shares = [child.demand for child in mine]
    weight = weights(label, mine)
    total = math.fsum(weight) if weight is not None else 0
    if weight is None or total == 0:
        want = [demand / count] * count
    else:
        want = [demand * w / total for w in weight]
    for share in shares:
        if not isinstance(share, (int, float)) or share != share:
            return "share-bounds", "child demands %r after writing %r" % (shares, demand)
        if not 0 <= share <= demand * (1 + REL):
            return "share-bounds", "child demands %r outside [0, %r] (weights %r)" % (
                shares, demand, weight)
    if not close(math.fsum(shares), demand):
        return "sum", "child demands %r sum to %r, written %r (weights %r)" % (
            shares, math.fsum(shares), demand, weight)
    for share, expected in zip(shares, want):
        if not close(share, expected):
            return "share", "child demands %r, expected %r for %r (weights %r)" % (
                shares, want, demand, weight)
    return None


def check_always(label, composite, mine):
    """Clauses that hold in every state"""
    want_supply = math.fsum(child.supply for child in mine)
    got = composite.supply
    if not close(got, want_supply):
        return "supply", "supply %r, children supply %r" % (
            got, [child.supply for child in mine])
    weight = weights(label, mine)
    for attr in ("utilisation", "allocation"):
        got = getattr(composite, attr)
        values = [getattr(child, attr) for child in mine]
        if not isinstance(got, (int, float)) or got != got:
            return attr + "-range", "%s is %r" % (attr, got)
        if values and min(values) * (1 - REL) <= got <= max(values) * (1 + REL):
            continue
        # the documented fallbacks
        if (not mine or want_supply == 0) and got == 1.0:
            continue
        if (weight is not None and mine and want_supply > 0
                and math.fsum(weight) == 0 and got == 0.0):
            continue
        return attr + "-range", (
            "%s %r outside the children's %r; no fallback applies (supply %r, weights %r)"
            % (attr, got, values, want_supply, weight))
    return None


def step(label, composite, mine, op):
    """Apply ``op`` and evaluate the oracle: None or (clause, description)"""
    try:
        apply(composite, mine, op)
        problem = None
        if op[0] == "write":
            problem = check_write(label, composite, mine, op[1])
        return problem or check_always(label, composite, mine)
    except Exception as err:  # noqa: B902 - the property promises a result
        return "raised-%s" % type(err).__name__, "%s raised %s: %s" % (
            op[0], type(err).__name__, err)


def run_case(case):
    """Replay {"label", "children", "ops"}; the oracle is evaluated in the initial state and
    after every operation, the last written demand must stay readable.  Returns
    (clause, description, index of the failing op or -1) or None"""
    label, ops = case["label"], [tuple(op) for op in case["ops"]]
    try:
        composite, mine = build(label, [tuple(kind) for kind in case["children"]],
                                ValueChild if case.get("twins") else None)
        problem = check_always(label, composite, mine)
    except Exception as err:  # noqa: B902
        problem = ("raised-%s" % type(err).__name__, "construction raised %s" % err)
    if problem:
        return problem + (-1,)
    written = None
    for index, op in enumerate(ops):
        if op[0] == "append":
            op = ("append", tuple(op[1]))
        problem = step(label, composite, mine, op)
        if problem is None and written is not None and op[0] != "write":
            problem = check_kept(composite, written[0])
        if problem:
            return problem + (index,)
        if op[0] == "write":
            written = (op[1],)
    return None


def check_kept(composite, demand):
    try:
        got = composite.demand
    except Exception as err:  # noqa: B902
        return "raised-%s" % type(err).__name__, "reading demand raised %s" % err
    if type(got) is not type(demand) or got != demand:
        return "readback-later", "composite.demand reads %r, last written %r" % (got, demand)
    return None


# ---------------------------------------------------------------------------------------
# classification: the minimal class of a counterexample


def total_class(label, kinds):
    if not kinds:
        return ":no-children"
    if label == "uniform":
        return ""
    index = ATTRS.index(label.split(":")[1])
    return ":zero-total" if all(kind[index] == 0 for kind in kinds) else ""


GROUPS = {"share-bounds": "distribution", "sum": "distribution", "share": "distribution"}


def group(clause):
    return GROUPS.get(clause, clause)


def classify(case, problem):
    """(key, minimal case).  The key names the composite, the clause (the three clauses
    about the distributed shares count as one) and whether the clause already breaks on a
    composite freshly built over the children as they are (static) or only after the
    history (history); ':zero-total' / ':no-children' mark the fallback situations."""
    clause, _what, index = problem
    label = case["label"]
    kind = group(clause)
    if index < 0:
        return "%s:%s:static%s" % (label, kind, total_class(label, case["children"])), case
    ops = [tuple(op) for op in case["ops"]][:index + 1]
    # the children right before the failing operation
    composite, mine = build(label, [tuple(kind_) for kind_ in case["children"]])
    for op in ops[:-1]:
        apply(composite, mine, op)
    before = [(c.supply, c.utilisation, c.allocation) for c in mine]
    last = ops[-1]
    after = list(before)
    if last[0] == "set":
        changed = list(after[last[1]])
        changed[ATTRS.index(last[2])] = last[3]
        after[last[1]] = tuple(changed)
    elif last[0] == "append":
        after.append(tuple(last[1]))
    elif last[0] == "remove":
        del after[last[1]]
    suffix = total_class(label, after)
    if last[0] == "write":
        static = {"label": label, "children": before, "ops": [last]}
    else:
        static = {"label": label, "children": after, "ops": []}
    again = run_case(static)
    if again is not None and group(again[0]) == kind:
        return "%s:%s:static%s" % (label, kind, suffix), static
    # history dependent: drop operations as long as the clause still breaks at the end
    changed = True
    while changed:
        changed = False
        for skip in range(len(ops) - 1):
            shorter = ops[:skip] + ops[skip + 1:]
            trial = {"label": label, "children": case["children"], "ops": shorter}
            try:
                again = run_case(trial)
            except Exception:  # noqa: B902 - indices no longer fit
                continue
            if (again is not None and group(again[0]) == kind
                    and again[2] == len(shorter) - 1):
                ops, changed = shorter, True
                break
    return ("%s:%s:history%s" % (label, kind, suffix),
            {"label": label, "children": case["children"], "ops": ops})


def report(acc, case, problem):
    try:
        key, minimal = classify(case, problem)
    except Exception as err:  # noqa: B902 - classification must not hide the violation
        key, minimal = "%s:%s:unclassified-%s" % (
            case["label"], problem[0], type(err).__name__), case
    acc.violation(key, problem[1], {"case": minimal})


# ---------------------------------------------------------------------------------------
# part 1: the full grid, writes only


def shard_grid(args):
    label, prefix, count, pairs = args
    acc = Acc()
    states = transitions = 0
    for rest in itertools.product(GRID, repeat=count - len(prefix)):
        children = list(prefix + rest)
        case = {"label": label, "children": children, "ops": []}
        interesting = count >= 2
        try:
            composite, mine = build(label, children)
            problem = check_always(label, composite, mine)
        except Exception as err:  # noqa: B902
            problem = ("raised-%s" % type(err).__name__, "construction raised %s" % err)
        states += 1
        acc.case()
        acc.outcome(None if problem is None else problem[0])
        if problem:
            report(acc, case, problem + (-1,))
            continue
        for first in DEMANDS:
            composite, mine = build(label, children)
            problem = step(label, composite, mine, ("write", first))
            states += 1
            transitions += 1
            acc.case(
                nontrivial_key=(label, children, first) if interesting and first else None,
                sample=({"label": label, "children": children, "ops": [("write", first)]}
                        if interesting and first and transitions % 4001 == 0 else None))
            acc.outcome(problem[0] if problem else
                        (composite.utilisation, composite.allocation))
            if problem:
                report(acc, {**case, "ops": [("write", first)]}, problem + (0,))
                continue
            if not pairs:
                continue
            for second in DEMANDS:
                if second == first:
                    continue
                composite, mine = build(label, children)
                apply(composite, mine, ("write", first))
                problem = step(label, composite, mine, ("write", second))
                transitions += 1
                acc.case()
                if problem:
                    report(acc, {**case, "ops": [("write", first), ("write", second)]},
                           problem + (1,))
    acc.states, acc.transitions = states, transitions
    acc.count("grid:states", states)
    acc.count("grid:transitions", transitions)
    return acc


# ---------------------------------------------------------------------------------------
# part 1b: extreme ratios - a huge demand over tiny supply weights.  Every share
# D * w / sum(w) is an ordinary double here, although D / sum(w) is not.

EXTREME_SUPPLY = [0, 1e-160, 3e-160]
EXTREME_DEMANDS = [1e150, 1e200]


def shard_extreme(args):
    (count,) = args
    acc = Acc()
    label = "weighted:supply"
    grid = [(s, u, a) for s in EXTREME_SUPPLY for u in (0.25, 1) for a in (0.25, 1)]
    for children in itertools.product(grid, repeat=count):
        for demand in EXTREME_DEMANDS:
            case = {"label": label, "children": children, "ops": [("write", demand)]}
            try:
                composite, mine = build(label, children)
                problem = step(label, composite, mine, ("write", demand))
            except Exception as err:  # noqa: B902
                problem = ("raised-%s" % type(err).__name__, "raised %s" % err)
            acc.case(nontrivial_key=(label, children, demand),
                     sample=case if acc.evaluations % 701 == 0 else None)
            acc.outcome(problem[0] if problem else "ok")
            if problem:
                report(acc, case, tuple(problem) + (0,))
    acc.count("extreme:cases", acc.evaluations)
    return acc


# ---------------------------------------------------------------------------------------
# part 2: breadth-first search over operation histories


def operations(mine):
    for demand in DEMANDS:
        yield ("write", demand)
    for index, child in enumerate(mine):
        for attr in ATTRS:
            for value in VALUES[attr]:
                if getattr(child, attr) != value:
                    yield ("set", index, attr, value)
    if len(mine) < MAX_CHILDREN:
        for kind in KINDS:
            yield ("append", kind)
    for index in range(len(mine)):
        yield ("remove", index)


def shard_bfs(args):
    label, children, depth = args
    acc = Acc()
    children = list(children)
    case = {"label": label, "children": children, "ops": []}
    problem = run_case(case)
    acc.case()
    if problem:
        report(acc, case, problem)
        return acc
    composite, mine = build(label, children)
    seen = {canon(composite, mine)}
    frontier = [()]
    transitions = nontrivial = 0
    deepest = 0
    for level in range(1, depth + 1):
        following = []
        failed = False
        for history in frontier:
            composite, mine = build(label, children)
            written = None
            for op in history:
                apply(composite, mine, op)
                if op[0] == "write":
                    written = op[1]
            for op in list(operations(mine)):
                composite, mine = build(label, children)
                for done in history:
                    apply(composite, mine, done)
                problem = step(label, composite, mine, op)
                if problem is None and written is not None and op[0] != "write":
                    problem = check_kept(composite, written)
                transitions += 1
                if problem:
                    failed = True
                    acc.case()
                    acc.outcome(problem[0])
                    report(acc, {**case, "ops": list(history + (op,))},
                           problem + (len(history),))
                    continue
                state = canon(composite, mine)
                new = state not in seen
                interesting = new and len(mine) >= 2 and op[0] == "write" and op[1] > 0
                acc.case(
                    nontrivial_key=(label, state) if interesting else None,
                    sample=({**case, "ops": list(history + (op,))}
                            if interesting and level == depth and transitions % 50021 == 0
                            else None))
                if new:
                    seen.add(state)
                    following.append(history + (op,))
                    nontrivial += interesting
                    acc.outcome((composite.utilisation, composite.allocation,
                                 composite.supply))
        deepest = level
        if failed:
            # the shortest counterexamples of this scenario are known; do not go deeper
            acc.count("bfs:scenarios-stopped-at-first-counterexample")
            break
        frontier = following
    acc.states, acc.transitions = len(seen), transitions
    acc.count("bfs:states", len(seen))
    acc.count("bfs:transitions", transitions)
    acc.count("bfs:depth-%d-scenarios" % deepest)
    return acc


def shard_twins(args):
    """Children that are equal to each other (value equality) but distinct objects"""
    label, count = args
    acc = Acc()
    for children in itertools.product(KINDS, repeat=count):
        if len(set(children)) == count:
            continue
        children = list(children)
        for demand in DEMANDS:
            case = {"label": label, "children": children, "ops": [("write", demand)],
                    "twins": True}
            try:
                composite, mine = build(label, children, ValueChild)
                problem = check_always(label, composite, mine) or step(
                    label, composite, mine, ("write", demand))
            except Exception as err:  # noqa: B902
                problem = ("raised-%s" % type(err).__name__, "raised %s" % err)
            acc.case(nontrivial_key=(label, tuple(children), demand, "twins") if demand else None)
            acc.transitions += 1
            acc.outcome(("twins", problem[0] if problem else None))
            if problem:
                acc.violation("equal-children:" + problem[0],
                              "children that compare equal (%r): %s" % (children, problem[1]),
                              case)
    return acc


def shard(args):
    if args[0] == "twins":
        return shard_twins(args[1:])
    return {"grid": shard_grid, "bfs": shard_bfs, "extreme": shard_extreme}[args[0]](args[1:])


# ---------------------------------------------------------------------------------------


def domain_margin():
    """The magnitudes are chosen so that no intermediate value leaves the doubles: the
    largest product / sum and the smallest positive share over the whole alphabet"""
    values = [v for v in SUPPLY + FITNESS]
    largest = max(DEMANDS) * max(values) * (MAX_CHILDREN + 1)
    positive = [v for v in values if v > 0]
    smallest = (min(d for d in DEMANDS if d > 0) * min(positive)
                / (max(values) * (MAX_CHILDREN + 1)))
    return largest, smallest


def run(ctx):
    largest, smallest = domain_margin()
    if not (largest < 1e300 and smallest > 1e-300):
        raise RuntimeError("alphabet leaves the double range: %r %r" % (largest, smallest))
    depth = 3 if ctx.quick else 4
    pairs = not ctx.quick
    shards = []
    for label in LABELS:
        for count in range(0, 3):
            shards.append(("grid", label, (), count, pairs))
        for first in GRID:
            shards.append(("grid", label, (first,), 3, pairs))
    scenarios = []
    for count in range(0, MAX_CHILDREN + 1):
        scenarios += list(itertools.combinations_with_replacement(KINDS, count))
    for label in LABELS:
        for children in scenarios:
            shards.append(("bfs", label, children, depth + (len(children) <= DEEPER)))
    shards += [("extreme", count) for count in (1, 2, 3)]
    shards += [("twins", label, count) for label in LABELS for count in (2, 3)]
    ctx.pmap(shard, shards)
    counters = ctx.acc.counters
    ctx.meta.update(
        rule="grid: every ordered tuple of 0..3 children over supply %r x utilisation %r x "
             "allocation %r, each of %r, the fresh composite and every write of %r%s; "
             "histories: BFS to depth %d (one deeper from <= %d initial children) over {write D, set child attribute to any grid "
             "value, append one of %d child kinds (at most %d children), remove a child} "
             "from every multiset of 0..3 of these kinds, states deduplicated per scenario by "
             "(demand, per child demand/supply/utilisation/allocation); a transition is "
             "non-trivial when it writes a demand > 0 to >= 2 children, distinct by "
             "(composite kind, resulting state)"
             % (SUPPLY, FITNESS, FITNESS, LABELS, DEMANDS,
                " and every pair of different writes" if pairs else "", depth, DEEPER,
                len(KINDS), MAX_CHILDREN),
        exhaustive=True,
        bounds={"depth": depth, "deeper_up_to_children": DEEPER, "max_children": MAX_CHILDREN, "supply": SUPPLY,
                "fitness": FITNESS, "demands": DEMANDS, "history_child_kinds": KINDS,
                "grid_write_pairs": pairs, "relative_tolerance": REL},
        parts={
            "grid": {"states": counters.get("grid:states", 0),
                     "transitions": counters.get("grid:transitions", 0)},
            "histories": {"states": counters.get("bfs:states", 0),
                          "transitions": counters.get("bfs:transitions", 0),
                          "scenarios": len(scenarios) * len(LABELS)},
        },
        domain={"largest_intermediate": largest, "smallest_positive_share": smallest,
                "combinations_left_out": 0},
    )
    ctx.assumptions += [
        "children are pools whose supply / utilisation / allocation do not react to a demand "
        "write (settable mock pools, as in the repository's tests); non-negative values only",
        "magnitudes: the largest product/sum over the alphabet is %.1e and the smallest "
        "positive share %.1e, so no intermediate overflows or underflows a double and no "
        "combination had to be left out" % (largest, smallest),
        "proportionality, conservation and the range of utilisation/allocation are compared "
        "with relative tolerance %g (floating-point rounding); a zero share and a zero sum "
        "are exact" % REL,
        "utilisation/allocation: the value must lie in the children's range, or equal 1.0 "
        "while there are no children or the supply is 0, or equal 0.0 while a weighted "
        "composite's weights sum to 0 and the supply is positive; the uniform composite has "
        "no weights, so only the 1.0 fallback can excuse it; nothing more exact than the "
        "range is required of the weighted mean",
        "the sum / share / bound clauses are evaluated right after a write only (children "
        "changed afterwards keep their demand until the next write); the last written "
        "demand must stay readable until the next write",
        "the full attribute grid is covered for single writes (thorough: pairs of writes) "
        "only; deeper histories start from multisets of %d child kinds (children's order "
        "is covered by the grid part and by append/remove)" % len(KINDS),
    ]


def replay(data):
    problem = run_case(data["case"])
    return None if problem is None else "%s: %s" % (problem[0], problem[1])
