"""
C04 - a ``>>`` chain builds exactly the nested pipeline, however grouped or curried.

Bounded-exhaustive input enumeration (smallscope) in three parts, all on the real
``.s()`` / template call / ``>>`` API:

chain part
    recording Controller / PoolDecorator / Pool subclasses (a distinct class per position),
    chains of n elements, every parenthesisation of the n-1 ``>>`` operators evaluated by a
    tree walker applying the real operator, the tail as pool instance, ``Pool.s(...)`` or
    curried ``Pool.s(...)(...)``, every element's arguments split in every way over 0..2
    curry calls.  Reference: the same elements nested by hand with plain constructor calls;
    compared are the global construction log (who, in which order, with which target,
    positional and keyword arguments) and the object graph reachable from the result.

signature part
    every constructor signature of a small grammar x role (Controller / PoolDecorator /
    Pool) x plain or ``@service`` wrapped x every argument list x every split over two
    calls.  Reference: an independent binder written from Python's call-binding rules,
    itself validated in-bounds against real constructor calls (binder shards).  Supplying
    arguments must raise ``TypeError`` at that moment iff they can never bind (or try to
    pass the target); when everything is supplied the bound instance must have received
    exactly what the binder computes.

shipped part
    the same eager-check oracle for every shipped template owner, parameter lists read
    from the real ``__init__``.
"""
import inspect
import itertools
import operator

from vlib.core import Acc

POOL = "<pool>"

# =======================================================================================
# reference binder (Python call binding, written from the language reference, section
# "Calls": positional arguments fill the positional parameters left to right, surplus goes
# to *args or is an error; a keyword argument fills the parameter of that name, it is an
# error if that parameter already has a value, an unknown name goes to **kwargs or is an
# error; finally every parameter without value takes its default or is an error)

P, D, K, KD, VA, VK = "P", "D", "K", "KD", "VA", "VK"
KINDS = (P, D, K, KD, VA, VK)

TOO_MANY = "too-many-positionals"
UNKNOWN = "unknown-keyword"
DUP_POS_KW = "duplicate-positional-keyword"
DUP_CALLS = "duplicate-keyword-across-calls"
TARGET_KW = "target-keyword"
POOL_FIRST = "pool-as-target-positional"
#: reasons that can only be found by looking at the constructor's parameters
SIGNATURE_REASONS = (TOO_MANY, UNKNOWN, DUP_POS_KW)
#: fixed priority used to name the class of an accepted, unbindable argument list
REASON_ORDER = (DUP_CALLS, TARGET_KW, POOL_FIRST, TOO_MANY, UNKNOWN, DUP_POS_KW)


def default_of(name):
    return "<default %s>" % name


def bind_call(params, args, kwargs):
    """Bind ``args`` / ``kwargs`` to ``params`` = [(name, kind)]

    Returns ``(binding, errors, missing)``: ``errors`` are the (reason, name) why the call
    can not succeed *whatever is added to it*, ``missing`` the required parameters still
    without value; ``binding`` maps every parameter name to the value it receives."""
    positional = [name for name, kind in params if kind in (P, D)]
    named = {name for name, kind in params if kind in (P, D, K, KD)}
    var_args = [name for name, kind in params if kind == VA]
    var_kwargs = [name for name, kind in params if kind == VK]
    binding, errors = {}, []
    surplus = []
    for index, value in enumerate(args):
        if index < len(positional):
            binding[positional[index]] = value
        else:
            surplus.append(value)
    if surplus and not var_args:
        errors.append((TOO_MANY, None))
    extra = {}
    for name, value in kwargs.items():
        if name in named:
            if name in binding:
                errors.append((DUP_POS_KW, name))
            else:
                binding[name] = value
        elif var_kwargs:
            extra[name] = value
        else:
            errors.append((UNKNOWN, name))
    missing = []
    for name, kind in params:
        if kind in (P, K) and name not in binding:
            missing.append(name)
        elif kind in (D, KD) and name not in binding:
            binding[name] = default_of(name)
    if var_args:
        binding[var_args[0]] = tuple(surplus)
    if var_kwargs:
        binding[var_kwargs[0]] = extra
    return binding, errors, missing


# =======================================================================================
# generated classes

LOG = []


def legal(kinds):
    """Orders Python accepts: P* D* [*args] (K|KD)* [**kwargs]"""
    stage = {P: 0, D: 1, VA: 2, K: 3, KD: 3, VK: 4}
    last = 0
    for kind in kinds:
        if stage[kind] < last or (stage[kind] == last and kind in (VA, VK)):
            return False
        last = stage[kind]
    return True


def signatures(max_params):
    return [
        kinds
        for size in range(max_params + 1)
        for kinds in itertools.product(KINDS, repeat=size)
        if legal(kinds)
    ]


#: how the constructor of a non-leaf class receives its target: a first parameter called
#: target, a first parameter of another name, or through its *args
TARGET_STYLES = ("named", "renamed", "varargs")


def make_params(kinds, leaf, style="named"):
    """[(name, kind)] of a constructor with the extra parameters ``kinds``"""
    if leaf or style == "varargs":
        assert leaf or (kinds and kinds[0] == VA)
        params = []
    else:
        params = [("target" if style == "named" else "pool", P)]
    names = iter("abc")
    for kind in kinds:
        if kind == VA:
            params.append(("args", VA))
        elif kind == VK:
            params.append(("kwargs", VK))
        else:
            params.append((next(names), kind))
    return params


def init_source(params, target_in_args=False):
    parts, star = ["self"], False
    for name, kind in params:
        if kind in (K, KD) and not star:
            parts.append("*")
            star = True
        if kind == VA:
            parts.append("*" + name)
            star = True
        elif kind == VK:
            parts.append("**" + name)
        elif kind in (D, KD):
            parts.append("%s=%r" % (name, default_of(name)))
        else:
            parts.append(name)
    body = ", ".join("%r: %s" % (name, name) for name, _ in params)
    lines = ["def __init__(%s):" % ", ".join(parts)]
    if params and params[0][0] in ("target", "pool"):
        lines.append("    _BASE.__init__(self, %s)" % params[0][0])
    elif target_in_args:
        lines.append("    _BASE.__init__(self, args[0])")
    lines.append("    self.bound = {%s}" % body)
    lines.append("    LOG.append(self)")
    return "\n".join(lines) + "\n"


def flavour_of(kind):
    if kind == "plain":
        return None
    import asyncio
    import threading

    import trio

    return {"service:trio": trio, "service:asyncio": asyncio,
            "service:threading": threading}[kind]


def make_class(name, role, kind, params, target_in_args=False):
    """A recording class: ``role`` controller / decorator / pool, ``kind`` plain or
    service:<flavour>; its constructor stores what it received and logs itself"""
    from cobald.interfaces import Controller, Pool, PoolDecorator

    base = {"controller": Controller, "decorator": PoolDecorator, "pool": Pool}[role]
    namespace = {"_BASE": base, "LOG": LOG}
    exec(init_source(params, target_in_args), namespace)  # noqa: S102 - generated above
    body = {"__init__": namespace["__init__"], "__qualname__": name}
    if role == "pool":
        body.update(supply=0.0, demand=0.0, utilisation=1.0, allocation=1.0)
    if kind != "plain":
        body["run"] = lambda self: None
    cls = type(name, (base,), body)
    if kind != "plain":
        from cobald.daemon import service

        cls = service(flavour=flavour_of(kind))(cls)
    return cls


_PLAIN_POOL = []


def plain_pool():
    """A fresh, argument-free pool instance (used as target and as argument value)"""
    if not _PLAIN_POOL:
        _PLAIN_POOL.append(make_class("ValuePool", "pool", "plain", []))
    return _PLAIN_POOL[0]()


# =======================================================================================
# signature part: subjects

class Subject:
    """One template owner whose eager argument check is examined"""

    pre_args = ()
    allow_pool = True
    style = "named"

    def __init__(self, label, owner, params, leaf, service):
        self.label = label      # JSON-able description, enough to rebuild the subject
        self.owner = owner      # object whose ``.s`` creates the template
        self.params = params    # [(name, kind)], including target unless leaf
        self.leaf = leaf
        self.service = service
        self.has_var_kwargs = any(kind == VK for _, kind in params)
        self._pool_value = None
        self._target_value = None

    # values ------------------------------------------------------------------------
    def pool_value(self):
        if self._pool_value is None:
            self._pool_value = plain_pool()
        return self._pool_value

    def target_value(self):
        # one target per subject: argument values (e.g. the default controller of a
        # DemandSwitch) are shared by the continuations of one template
        if self._target_value is None:
            self._target_value = plain_pool()
        return self._target_value

    def positional(self, index, token):
        return self.pool_value() if token == POOL else token

    def keyword(self, name):
        return "v_" + name

    # behaviour ---------------------------------------------------------------------
    def constructible(self, tokens, names):
        """May the final bind be demanded to succeed (semantically valid values)?"""
        return True

    def finish(self, template, target):
        if self.leaf:
            head = _head_class().s() >> template
            return head.target
        return template >> target

    def verify(self, instance, binding, target):
        if type(instance) is not self.owner:
            return "the bound object is %r, not an instance of %s" % (
                instance, self.owner.__name__)
        if instance.bound != binding:
            return "the constructor received %r, hand-written call gives %r" % (
                instance.bound, binding)
        return None


_HEAD = []


def _head_class():
    if not _HEAD:
        _HEAD.append(make_class("Head", "controller", "plain", [("target", P)]))
    return _HEAD[0]


def generated_subject(role, kind, kinds, style="named"):
    leaf = role == "pool"
    params = make_params(kinds, leaf, style)
    cls = make_class("Gen_" + "_".join(kinds) if kinds else "Gen", role, kind, params,
                     target_in_args=style == "varargs")
    label = {"subject": "generated", "role": role, "kind": kind, "signature": list(kinds)}
    if style != "named":
        label["style"] = style
    subject = Subject(label, cls, params, leaf, kind != "plain")
    subject.style = style
    return subject


def params_of(cls):
    """Parameter list of a shipped class, read from its real ``__init__``"""
    params = []
    for parameter in list(inspect.signature(cls.__init__).parameters.values())[1:]:
        has_default = parameter.default is not parameter.empty
        if parameter.kind == parameter.POSITIONAL_OR_KEYWORD:
            params.append((parameter.name, D if has_default else P))
        elif parameter.kind == parameter.KEYWORD_ONLY:
            params.append((parameter.name, KD if has_default else K))
        elif parameter.kind == parameter.VAR_POSITIONAL:
            params.append((parameter.name, VA))
        elif parameter.kind == parameter.VAR_KEYWORD:
            params.append((parameter.name, VK))
        else:
            raise RuntimeError("positional-only parameter in %r" % cls)
    return params


def _rule(pool, interval):
    return None


#: name, module, leaf, wrapped by @service, valid values per parameter
SHIPPED = {
    "LinearController": ("cobald.controller.linear", False, True, {
        "low_utilisation": 0.5, "high_allocation": 0.5, "rate": 1, "interval": 1}),
    "RelativeSupplyController": ("cobald.controller.relative_supply", False, True, {
        "low_utilisation": 0.5, "high_allocation": 0.5, "low_scale": 0.9,
        "high_scale": 1.1, "interval": 1}),
    "DemandSwitch": ("cobald.controller.switch", False, True, {"interval": 1}),
    "Buffer": ("cobald.decorator.buffer", False, True, {"window": 1.0}),
    "Standardiser": ("cobald.decorator.standardiser", False, False, {
        "minimum": 0, "maximum": 10, "granularity": 1, "backlog": 1, "surplus": 1}),
    "Limiter": ("cobald.decorator.limiter", False, False, {
        "minimum": 0, "maximum": 10, "granularity": 1, "backlog": 1, "surplus": 1}),
    "Coarser": ("cobald.decorator.coarser", False, False, {
        "minimum": 0, "maximum": 10, "granularity": 1, "backlog": 1, "surplus": 1}),
    "Logger": ("cobald.decorator.logger", False, False, {
        "name": "verif.c04", "message": "m", "level": 10}),
    "PoolDecorator": ("cobald.interfaces", False, False, {}),
    "Controller": ("cobald.interfaces", False, False, {}),
    "UniformComposite": ("cobald.composite.uniform", True, False, {}),
    "WeightedComposite": ("cobald.composite.weighted", True, False, {"weight": "supply"}),
    "FactoryPool": ("cobald.composite.factory", True, True, {
        "factory": plain_pool, "interval": 1}),
    "Stepwise:0": ("cobald.controller.stepwise", False, True, {"interval": 1}),
    "Stepwise:1": ("cobald.controller.stepwise", False, True, {"interval": 1}),
}


class ShippedSubject(Subject):
    def __init__(self, name):
        import importlib

        module, leaf, service, values = SHIPPED[name]
        cls = getattr(importlib.import_module(module), name.split(":")[0])
        self.cls = cls
        self.name = name
        self.values = values
        owner = cls
        if name.startswith("Stepwise"):
            # templates of Stepwise are made by the decorator interface, which supplies
            # the base rule and the registered rules itself
            owner = getattr(importlib.import_module(module), "UnboundStepwise")(_rule)
            self.pre_args = (_rule,)
            for index in range(int(name.split(":")[1])):
                owner.add(_rule, supply=5.0 * (index + 1))
                self.pre_args += ((5.0 * (index + 1), _rule),)
            self.allow_pool = False
        Subject.__init__(self, {"subject": "shipped", "name": name}, owner,
                         params_of(cls), leaf, service)
        self.positional_names = [n for n, kind in self.params if kind in (P, D)]
        if not leaf:
            self.positional_names = self.positional_names[1:]
        self.positional_names = self.positional_names[len(self.pre_args):]

    def positional(self, index, token):
        from cobald.interfaces import Controller

        if token == POOL:
            return self.pool_value()
        if index < len(self.positional_names):
            name = self.positional_names[index]
            if name == "default":
                return Controller(None)
            return self.values.get(name, token)
        index -= len(self.positional_names)
        if self.name.startswith("Stepwise"):
            return (100.0 + index, _rule)
        if self.name == "DemandSwitch":
            return 100.0 + index if index % 2 == 0 else Controller(None)
        return token

    def keyword(self, name):
        from cobald.interfaces import Controller

        if name == "default":
            return Controller(None)
        return self.values.get(name, Subject.keyword(self, name))

    def constructible(self, tokens, names):
        if "CompositePool" in [base.__name__ for base in self.cls.__mro__]:
            return all(token == POOL for token in tokens)
        if POOL in tokens:
            return False
        if self.name == "DemandSwitch":
            return max(0, len(tokens) - len(self.positional_names)) % 2 == 0
        return True

    def verify(self, instance, binding, target):
        if type(instance) is not self.cls:
            return "the bound object is %r, not an instance of %s" % (
                instance, self.cls.__name__)
        if not self.leaf and instance.target is not target:
            return "the bound %s has target %r, not the pool it was bound to" % (
                self.cls.__name__, instance.target)
        return None


def make_subject(label):
    if label["subject"] == "generated":
        return generated_subject(label["role"], label["kind"], tuple(label["signature"]),
                                 label.get("style", "named"))
    return ShippedSubject(label["name"])


# =======================================================================================
# signature part: one path of calls

class Step:
    """Outcome of supplying one more set of arguments"""

    __slots__ = ("template", "expected", "raised", "problem", "skipped", "tokens",
                 "names")


def expectation(subject, tokens, names, used, new_names):
    """Reasons why supplying these (accumulated) arguments must be rejected"""
    reasons = set()
    if any(name in used for name in new_names):
        reasons.add(DUP_CALLS)
    args = subject.pre_args + tuple(tokens)
    if not subject.leaf:
        args = ("<target>",) + args     # the target arrives later, first positional
    _, errors, _ = bind_call(subject.params, args, dict.fromkeys(names))
    for reason, name in errors:
        if reason == DUP_POS_KW and not subject.leaf and subject.style != "varargs" \
                and name == subject.params[0][0]:
            reason = TARGET_KW      # the parameter that takes the target, whatever its name
        reasons.add(reason)
    if not subject.leaf and subject.allow_pool and tokens and tokens[0] == POOL:
        reasons.add(POOL_FIRST)
    return sorted(reasons, key=REASON_ORDER.index)


def supply(subject, template, call_index, tokens_before, used_before, tokens, names):
    """Supply one call's arguments to the real template; compare with the binder"""
    step = Step()
    step.template = None
    step.problem = None
    step.skipped = False
    all_tokens = tuple(tokens_before) + tuple(tokens)
    all_names = tuple(used_before) + tuple(n for n in names if n not in used_before)
    step.tokens, step.names = all_tokens, all_names
    if (subject.leaf or subject.style != "named") and "target" in all_names \
            and subject.has_var_kwargs:
        step.skipped = True     # domain restriction, see assumptions
        step.expected, step.raised = [], False
        return step
    step.expected = expectation(subject, all_tokens, all_names, used_before, names)
    args = [subject.positional(len(tokens_before) + i, token)
            for i, token in enumerate(tokens)]
    kwargs = {name: subject.keyword(name) for name in names}
    try:
        if template is None:
            step.template = subject.owner.s(*args, **kwargs)
        else:
            step.template = template(*args, **kwargs)
        step.raised = False
    except TypeError:
        step.raised = True
    except Exception as err:  # noqa: B902
        step.raised = True
        step.problem = ("raised-%s" % type(err).__name__,
                        "supplying %s raised %s: %s" % (
                            show_call(tokens, names, tokens_before if call_index else None, used_before), type(err).__name__, err))
        return step
    if step.expected and not step.raised:
        step.problem = ("accepts", "%s accepted although the arguments can never bind (%s)"
                        % (show_call(tokens, names, tokens_before if call_index else None, used_before), ", ".join(step.expected)))
    elif step.raised and not step.expected:
        step.problem = ("rejects", "%s rejected with TypeError although the arguments can "
                        "bind" % show_call(tokens, names, tokens_before if call_index else None, used_before))
    return step


def show_call(tokens, names, tokens_before=None, names_before=()):
    text = "(%s)" % ", ".join([str(t) for t in tokens] + ["%s=..." % n for n in names])
    if tokens_before is None:
        return ".s" + text
    return show_call(tokens_before, names_before) + text


def complete(subject, template, tokens, names):
    """All arguments supplied and accepted: bind to a pool, compare what arrived"""
    args = subject.pre_args + tuple(tokens)
    target = None if subject.leaf else subject.target_value()
    if not subject.leaf:
        args = (target,) + args
    binding, errors, missing = bind_call(subject.params, args, dict.fromkeys(names))
    if errors or missing or not subject.constructible(tokens, names):
        return None, False
    # the values the hand-written call would pass
    values = [subject.positional(i, token) for i, token in enumerate(tokens)]
    args = subject.pre_args + tuple(values)
    if not subject.leaf:
        args = (target,) + args
    kwargs = {name: subject.keyword(name) for name in names}
    binding, _, _ = bind_call(subject.params, args, kwargs)
    del LOG[:]
    try:
        instance = subject.finish(template, target)
    except Exception as err:  # noqa: B902
        return ("bind-raised-%s" % type(err).__name__,
                "binding the accepted, complete template raised %s: %s" % (
                    type(err).__name__, err)), True
    problem = subject.verify(instance, binding, target)
    if problem:
        return ("wrong-binding", problem), True
    return None, True


def run_sig_path(subject, calls):
    """Replay entry: ``calls`` = [{"args": tokens, "kwargs": names}, ...]

    Returns the list of (class, description) found along the path."""
    problems = []
    template, tokens, used = None, (), ()
    for index, call in enumerate(calls):
        step = supply(subject, template, index, tokens, used,
                      tuple(call["args"]), tuple(call["kwargs"]))
        if step.skipped:
            return problems
        if step.problem:
            problems.append(step.problem)
        if step.raised:
            return problems
        template, tokens, used = step.template, step.tokens, step.names
    problem, _ = complete(subject, template, tokens, _first_values(calls))
    if problem:
        problems.append(problem)
    return problems


def _first_values(calls):
    names = []
    for call in calls:
        names += [n for n in call["kwargs"] if n not in names]
    return tuple(names)


# =======================================================================================
# signature part: enumeration

def pool_patterns(size, allow_pool):
    """Token lists of ``size`` positionals: distinct integers, optionally one of them or
    all of them replaced by a Pool instance"""
    plain = tuple(range(1, size + 1))
    yield plain
    if not allow_pool:
        return
    for index in range(size):
        yield plain[:index] + (POOL,) + plain[index + 1:]
    if size >= 2:
        yield (POOL,) * size


def call_tree(max_pos, names, max_names, allow_pool, max_calls=2):
    """{first call: [second call or None]}; a call is (tokens, names).  Equivalent to
    every argument list x every split of it over one or two calls, a keyword may also be
    given in both calls"""
    positional = {}
    for size in range(max_pos + 1):
        for tokens in pool_patterns(size, allow_pool):
            positional.setdefault(tokens, set()).add(None)
            if max_calls > 1:
                for cut in range(size + 1):
                    positional.setdefault(tokens[:cut], set()).add(tokens[cut:])
    subsets = [
        subset
        for size in range(max_names + 1)
        for subset in itertools.combinations(names, size)
    ]
    tree = []
    for first_tokens in sorted(positional, key=repr):
        seconds = sorted(positional[first_tokens], key=repr)
        for first_names in subsets:
            followers = []
            for second_tokens in seconds:
                if second_tokens is None:
                    followers.append(None)
                    continue
                for second_names in subsets:
                    if len(set(first_names) | set(second_names)) <= max_names:
                        followers.append((second_tokens, second_names))
            tree.append(((first_tokens, first_names), followers))
    return tree


class SubjectRun:
    """Explore one subject completely; name the violation classes at the end"""

    def __init__(self, acc, subject):
        self.acc = acc
        self.subject = subject
        self.rejected_by_signature = 0
        self.pending = {}

    def case(self, calls, steps, completion):
        subject, acc = self.subject, self.acc
        case = {"part": "signature", "subject": subject.label, "calls": calls}
        nontrivial = any(call["args"] or call["kwargs"] for call in calls)
        acc.case(nontrivial_key=repr(case) if nontrivial else None,
                 sample=case if nontrivial and acc.evaluations % 1009 == 1 else None)
        acc.outcome(tuple((bool(s.expected), s.raised) for s in steps) + (completion,))
        last = steps[-1]
        if last.raised and last.expected and "target" not in last.names and (
            POOL not in last.tokens
        ) and all(reason in SIGNATURE_REASONS for reason in last.expected):
            # refused, and neither 'target' nor a Pool value can be the cause: the
            # constructor's parameters were looked at
            self.rejected_by_signature += 1
        return case

    def explore(self, tree):
        subject, acc = self.subject, self.acc
        for (tokens, names), followers in tree:
            first_call = {"args": list(tokens), "kwargs": list(names)}
            first = supply(subject, None, 0, (), (), tokens, names)
            if first.skipped:
                acc.count("skipped:leaf-target-keyword-into-var-kwargs")
                continue
            for follower in followers:
                if follower is None:
                    steps, calls = [first], [first_call]
                elif first.raised:
                    continue        # nothing to curry: the first call was refused
                else:
                    second = supply(subject, first.template, 1, first.tokens, first.names,
                                    *follower)
                    if second.skipped:
                        acc.count("skipped:leaf-target-keyword-into-var-kwargs")
                        continue
                    steps = [first, second]
                    calls = [first_call, {"args": list(follower[0]),
                                          "kwargs": list(follower[1])}]
                problems = [steps[-1].problem] if steps[-1].problem else []
                done = False
                if not steps[-1].raised:
                    problem, done = complete(subject, steps[-1].template,
                                             steps[-1].tokens, steps[-1].names)
                    if problem:
                        problems.append(problem)
                case = self.case(calls, steps, done)
                for problem in problems:
                    self.record(case, steps[-1], problem)
        self.close()

    def record(self, case, step, problem):
        kind, what = problem
        subject = self.subject
        what = "%s: %s" % (describe(subject), what)
        if kind == "accepts":
            reason = step.expected[0]
            if all(reason in SIGNATURE_REASONS for reason in step.expected):
                # named when the subject is finished, see close(); keep the smallest
                kept = self.pending.setdefault(reason, [0, []])
                kept[0] += 1
                kept[1] = sorted(kept[1] + [(len(repr(case)), repr(case), what, case)])[:3]
            else:
                self.acc.violation("accepts-unbindable:" + reason, what, case)
        elif kind == "rejects":
            self.acc.violation(classify_rejection(subject, case), what, case)
        else:
            self.acc.violation(kind, what, case)

    def close(self):
        """An eager check that never rejected anything because of the signature is one
        defect (the check is vacuous for this class), otherwise one class per reason"""
        vacuous = self.pending and not self.rejected_by_signature
        emit = []
        for reason in sorted(self.pending):
            number, kept = self.pending[reason]
            if vacuous:
                key = "eager-check-vacuous-for-%s-classes" % (
                    "service" if self.subject.service else "plain")
            else:
                key = "accepts-unbindable:" + reason
            emit += [(size, text, key, what, case) for size, text, what, case in kept]
            self.acc.violation_count += number - len(kept)
            self.acc.count("violation:" + key, number - len(kept))
        for _, _, key, what, case in sorted(emit, key=lambda item: item[:3]):
            self.acc.violation(key, what, case)
        self.pending = {}


def describe(subject):
    label = subject.label
    if label["subject"] == "shipped":
        return label["name"]
    return "%s %s class __init__(%s)" % (
        label["kind"], label["role"],
        init_source(subject.params).split("(", 1)[1].split("):")[0])


def classify_rejection(subject, case):
    """Class of a refused, bindable argument list: is the Pool instance the cause?"""
    calls = case["calls"]
    where = "s-call" if len(calls) == 1 else "curry-call"
    role = "leaf" if subject.leaf else "nonleaf"
    if any(POOL in call["args"] for call in calls):
        position = 0
        plain_calls = []
        for call in calls:
            args = []
            for token in call["args"]:
                position += 1
                args.append(position if token == POOL else token)
            plain_calls.append({"args": args, "kwargs": call["kwargs"]})
        if not any(kind == "rejects" for kind, _ in run_sig_path(subject, plain_calls)):
            if subject.leaf:
                return "leaf-template-rejects-pool-positional"
            return "nonleaf-template-rejects-pool-value"
    return "rejects-bindable:%s:%s" % (role, where)


GENERATED_NAMES = ("a", "b", "c", "zz", "target")


def shard_generated(args):
    _, role, kind, kinds, max_pos, max_names = args[:6]
    style = args[6] if len(args) > 6 else "named"
    acc = Acc()
    subject = generated_subject(role, kind, kinds, style)
    names = GENERATED_NAMES + (("pool",) if style == "renamed" else ())
    tree = call_tree(max_pos, names, max_names, True)
    SubjectRun(acc, subject).explore(tree)
    return acc


def shard_shipped(args):
    _, name, extra_pos, max_names = args
    acc = Acc()
    subject = ShippedSubject(name)
    names = [n for n, kind in subject.params if kind in (P, D, K, KD) and n != "target"]
    names += ["zz", "target"]
    max_pos = len(subject.positional_names) + extra_pos
    tree = call_tree(max_pos, names, max_names, subject.allow_pool)
    SubjectRun(acc, subject).explore(tree)
    return acc


# =======================================================================================
# validation of the binder against real calls

def shard_binder(args):
    """For every signature and argument list in bounds: the binder says "can never bind"
    iff no completion from the finite alphabet makes the real constructor call succeed,
    and a complete call arrives exactly as the binder computes.  A disagreement is a
    fault of the check (infrastructure error), never a verdict."""
    _, kinds, max_pos, names = args
    acc = Acc()
    for leaf in (False, True):
        role = "pool" if leaf else "controller"
        for kind in ("plain", "service:trio"):
            subject = generated_subject(role, kind, kinds)
            cls, params = subject.owner, subject.params
            fillers = [n for n, k in params if k in (P, D, K, KD)] + ["zz"]
            for size in range(max_pos + 1):
                for subset_size in range(len(names) + 1):
                    for subset in itertools.combinations(names, subset_size):
                        args_ = tuple(range(1, size + 1))
                        if not leaf:
                            args_ = ("<target>",) + args_
                        kwargs = {name: "v_" + name for name in subset}
                        binding, errors, missing = bind_call(params, args_, kwargs)
                        succeeded = None
                        for more in range(len(params) + 2):
                            for fill_size in range(len(fillers) + 1):
                                for fill in itertools.combinations(fillers, fill_size):
                                    if set(fill) & set(subset):
                                        continue
                                    try:
                                        cls(*args_, *["x"] * more, **kwargs,
                                            **dict.fromkeys(fill, "y"))
                                    except TypeError:
                                        continue
                                    succeeded = (more, fill)
                                    break
                                if succeeded:
                                    break
                            if succeeded:
                                break
                        acc.count("binder-validation-calls")
                        if bool(errors) != (succeeded is None):
                            raise RuntimeError(
                                "binder disagrees with Python: %r %r %r -> errors %r, real "
                                "call completion %r" % (params, args_, kwargs, errors,
                                                        succeeded))
                        if not errors and not missing:
                            instance = cls(*args_, **kwargs)
                            if instance.bound != binding:
                                raise RuntimeError(
                                    "binder binding differs from Python: %r %r %r -> %r, "
                                    "real %r" % (params, args_, kwargs, binding,
                                                 instance.bound))
                        elif not errors:
                            try:
                                cls(*args_, **kwargs)
                            except TypeError:
                                pass
                            else:
                                raise RuntimeError(
                                    "binder reports missing %r but the real call "
                                    "succeeds: %r %r %r" % (missing, params, args_, kwargs))
    del LOG[:]
    return acc


# =======================================================================================
# chain part

def compositions(total, parts):
    if parts == 1:
        yield (total,)
        return
    for first in range(total + 1):
        for rest in compositions(total - first, parts - 1):
            yield (first,) + rest


def element_variants(max_calls=3):
    """Every argument set (positionals [], [1], [1, 2]; keywords subset of k, m) split in
    every way over 1..3 calls: a variant is a tuple of calls (positional count, names)"""
    variants = []
    for calls in range(1, max_calls + 1):
        for count in (0, 1, 2):
            for split in compositions(count, calls):
                for size in (0, 1, 2):
                    for names in itertools.combinations(("k", "m"), size):
                        for places in itertools.product(range(calls), repeat=len(names)):
                            variant = tuple(
                                (split[c], tuple(n for n, p in zip(names, places) if p == c))
                                for c in range(calls))
                            variants.append(variant)
    return variants


def tail_variants():
    """instance with every argument set, every template variant (one call: ``Pool.s(..)``,
    more calls: curried)"""
    tails = [("instance", variant) for variant in element_variants(1)]
    tails += [("template", variant) for variant in element_variants(3)]
    return tails


REDUCED = [
    ((0, ()),),
    ((2, ("k", "m")),),
    ((1, ()), (1, ("k",)), (0, ("m",))),
    ((0, ()), (1, ("m",))),
]
REDUCED_TAILS = [
    ("instance", ((0, ()),)),
    ("instance", ((2, ("k", "m")),)),
    ("template", ((1, ("k",)),)),
    ("template", ((1, ()), (1, ("m",)), (0, ("k",)))),
]


def groupings(low, high):
    """Every parenthesisation of elements low..high-1: an index or (left, right)"""
    if high - low == 1:
        return [low]
    return [
        (left, right)
        for cut in range(low + 1, high)
        for left in groupings(low, cut)
        for right in groupings(cut, high)
    ]


_CHAIN_CLASSES = {}


def chain_classes(head_role, kind, size):
    """Recording classes for a chain: distinct per position"""
    key = (head_role, kind, size)
    if key not in _CHAIN_CLASSES:
        owner = [("target", P), ("args", VA), ("kwargs", VK)]
        classes = [make_class("E0_" + head_role, head_role, kind, owner)]
        for position in range(1, size - 1):
            classes.append(make_class("E%d_decorator" % position, "decorator", kind, owner))
        classes.append(make_class("E%d_pool" % (size - 1), "pool", kind, owner[1:]))
        _CHAIN_CLASSES[key] = classes
    return _CHAIN_CLASSES[key]


def call_values(position, variant):
    """The concrete arguments of every call of an element: [(args, kwargs)]"""
    calls, serial = [], 0
    for count, names in variant:
        args = tuple(100 * (position + 1) + serial + i for i in range(count))
        serial += count
        calls.append((args, {name: "%s%d" % (name, position) for name in names}))
    return calls


def flatten(calls):
    args, kwargs = (), {}
    for more_args, more_kwargs in calls:
        args += more_args
        kwargs.update(more_kwargs)
    return args, kwargs


def canonical(log, head, size):
    """What the property defines: who was constructed in which order with which target
    and arguments, and the chain reachable from the result"""
    entries = []
    for obj in log:
        bound = dict(obj.bound)
        target = bound.pop("target", None)
        index = next((i for i, other in enumerate(log) if other is target), None)
        entries.append((type(obj).__name__, index, bound["args"], bound["kwargs"]))
    walk, node = [], head
    for _ in range(size + 2):
        index = next((i for i, other in enumerate(log) if other is node), None)
        walk.append(index if index is not None else "?%s" % type(node).__name__)
        node = getattr(node, "target", None)
        if node is None:
            break
    return entries, walk


def walk_tree(tree, leaves):
    if isinstance(tree, (tuple, list)):
        return operator.rshift(walk_tree(tree[0], leaves), walk_tree(tree[1], leaves))
    return leaves[tree]()


def run_chain_case(case, trees=None):
    """case: head role, kind, element variants, tail form + variant, (grouping)

    Returns [(grouping, class, description)] for every grouping that disagrees with the
    hand-nested construction."""
    variants = [tuple((c, tuple(n)) for c, n in v) for v in case["elements"]]
    tail_form = case["tail"][0]
    tail_variant = tuple((c, tuple(n)) for c, n in case["tail"][1])
    size = len(variants) + 1
    classes = chain_classes(case["head"], case["kind"], size)
    values = [call_values(i, v) for i, v in enumerate(variants + [tail_variant])]
    # -- reference: nest the constructors by hand
    del LOG[:]
    args, kwargs = flatten(values[-1])
    obj = classes[-1](*args, **kwargs)
    for position in reversed(range(size - 1)):
        args, kwargs = flatten(values[position])
        obj = classes[position](obj, *args, **kwargs)
    reference = canonical(list(LOG), obj, size)
    del LOG[:]
    # -- templates through the public API
    leaves = []
    try:
        for position in range(size - 1):
            calls = values[position]
            template = classes[position].s(*calls[0][0], **calls[0][1])
            for more_args, more_kwargs in calls[1:]:
                template = template(*more_args, **more_kwargs)
            leaves.append(lambda template=template: template)
        calls = values[-1]
        if tail_form == "instance":
            leaves.append(lambda: classes[-1](*calls[0][0], **calls[0][1]))
        else:
            template = classes[-1].s(*calls[0][0], **calls[0][1])
            for more_args, more_kwargs in calls[1:]:
                template = template(*more_args, **more_kwargs)
            leaves.append(lambda template=template: template)
    except Exception as err:  # noqa: B902
        return [(None, "chain:template-raised-%s" % type(err).__name__,
                 "creating the templates raised %s: %s" % (type(err).__name__, err))]
    if LOG:
        return [(None, "chain:constructed-before-bound",
                 "creating templates constructed %r" % [type(o).__name__ for o in LOG])]
    if trees is None:
        trees = [case["grouping"]] if case.get("grouping") is not None else groupings(0, size)
    problems = []
    for tree in trees:
        del LOG[:]
        try:
            result = walk_tree(tree, leaves)
        except Exception as err:  # noqa: B902
            problems.append((tree, "chain:raised-%s" % type(err).__name__,
                             "%s raised %s: %s" % (show_tree(tree), type(err).__name__, err)))
            continue
        got = canonical(list(LOG), result, size)
        if got != reference:
            problems.append((tree, classify_chain(reference, got, variants + [tail_variant]),
                             "%s gives construction log %r, chain from result %r; nested by "
                             "hand: %r, %r" % (show_tree(tree), got[0], got[1],
                                               reference[0], reference[1])))
    del LOG[:]
    return problems


def show_tree(tree):
    if isinstance(tree, (tuple, list)):
        return "(%s >> %s)" % (show_tree(tree[0]), show_tree(tree[1]))
    return "e%d" % tree


def classify_chain(reference, got, variants):
    (want_log, want_walk), (got_log, got_walk) = reference, got
    if sorted(e[0] for e in got_log) != sorted(e[0] for e in want_log):
        return "chain:not-constructed-exactly-once"
    if [e[0] for e in got_log] != [e[0] for e in want_log]:
        return "chain:construction-order"
    if [e[1] for e in got_log] != [e[1] for e in want_log]:
        return "chain:wrong-target"
    if got_walk != want_walk:
        return "chain:head-not-returned"
    for index, (want, have) in enumerate(zip(want_log, got_log)):
        # the log is last to first: entry 0 is the tail
        variant = variants[len(variants) - 1 - index]
        curried = "curried" if len(variant) > 1 else "single-call"
        if want[2] != have[2]:
            return "chain:wrong-positional-arguments:" + curried
        if want[3] != have[3]:
            return "chain:wrong-keyword-arguments:" + curried
    return "chain:other"


def chain_cases(size, focus, focus_variants, tails):
    """Every variant at the focus position, the reduced set elsewhere"""
    for focused in focus_variants:
        pools = [REDUCED] * (size - 1)
        if focus < size - 1:
            pools[focus] = [focused]
            tail_pool = tails
        else:
            tail_pool = [focused]
        for elements in itertools.product(*pools):
            for tail in tail_pool:
                yield list(elements), tail


def shard_chain(args):
    _, head, kind, size, focus, chunk, chunks = args
    acc = Acc()
    if focus is None:               # reduced variants everywhere
        cases = ((list(elements), tail)
                 for elements in itertools.product(*[REDUCED] * (size - 1))
                 for tail in REDUCED_TAILS)
    elif focus == "all":            # every variant everywhere (short chains)
        everything = element_variants()
        cases = ((list(elements), tail)
                 for elements in itertools.product(
                     everything[chunk::chunks], *[everything] * (size - 2))
                 for tail in tail_variants())
    elif focus == size - 1:
        cases = chain_cases(size, focus, tail_variants()[chunk::chunks], None)
    else:
        cases = chain_cases(size, focus, element_variants()[chunk::chunks], REDUCED_TAILS)
    trees = groupings(0, size)
    for elements, tail in cases:
        case = {"part": "chain", "head": head, "kind": kind, "elements": elements,
                "tail": tail}
        problems = run_chain_case(case, trees)
        with_arguments = any(count or names for variant in elements + [tail[1]]
                             for count, names in variant)
        key = repr(case)
        for tree in trees:
            acc.case(
                nontrivial_key=(key, repr(tree)) if with_arguments or size > 2 else None,
                sample=dict(case, grouping=tree)
                if with_arguments and acc.evaluations % 5003 == 1 else None)
        acc.outcome((size, tail[0], sorted(p[1] for p in problems)))
        for tree, klass, what in problems:
            acc.violation(klass, what, dict(case, grouping=tree))
    return acc


# =======================================================================================

# =======================================================================================
# histories: templates are values - using one twice, or two related classes one after the
# other, must not change what either means


def _history_classes():
    from cobald.interfaces import Controller, Pool, PoolDecorator

    log = []

    class Ctrl(Controller):
        def __init__(self, target, tag="a"):
            super().__init__(target)
            log.append(("Ctrl", tag, target))

    def deco(name):
        class Deco(PoolDecorator):
            def __init__(self, target, tag=name):
                super().__init__(target)
                log.append((name, tag, target))
        Deco.__name__ = Deco.__qualname__ = name
        return Deco

    class End(Pool):
        supply = demand = utilisation = allocation = 0

        def __init__(self, tag="pool"):
            log.append(("End", tag, None))

    return log, Ctrl, deco("B"), deco("C"), deco("D"), End


def _shape(head):
    out = []
    while head is not None:
        out.append(type(head).__name__)
        head = getattr(head, "target", None)
    return out


def run_history_case(case):
    """(key, description) problems of one history case"""
    kind = case["kind"]
    if kind == "prefix-reuse":
        # a kept prefix, continued in one way (result discarded or not) and then in another
        log, Ctrl, B, C, D, End = _history_classes()
        prefix = Ctrl.s() >> B.s()
        first = prefix >> C.s()
        if case["bind_first"]:
            first >> End()
        del log[:]
        second = prefix >> D.s() >> End()
        want = ["Ctrl", "B", "D", "End"]
        if _shape(second) != want or [entry[0] for entry in log] != list(reversed(want)):
            return [("history:prefix-reuse",
                     "prefix = Ctrl.s() >> B.s(); prefix >> C.s()%s; prefix >> D.s() >> pool "
                     "built %r (constructed %r), by hand it is %r"
                     % (" >> pool" if case["bind_first"] else "", _shape(second),
                        [entry[0] for entry in log], want))]
        del log[:]
        third = prefix >> End()
        if _shape(third) != ["Ctrl", "B", "End"]:
            return [("history:prefix-reuse", "the prefix itself later built %r" % _shape(third))]
        return []
    if kind == "template-reuse":
        # one template bound twice gives two independent pipelines
        log, Ctrl, B, C, D, End = _history_classes()
        template = Ctrl.s(tag="x")
        one = template >> B.s() >> End()
        two = template >> End()
        if _shape(one) != ["Ctrl", "B", "End"] or _shape(two) != ["Ctrl", "End"] or one is two:
            return [("history:template-reuse", "one template bound twice built %r and %r"
                     % (_shape(one), _shape(two)))]
        return []
    if kind == "derived-service":
        # a class derived from a service class has its own constructor signature
        import trio

        from cobald.daemon import service
        from cobald.interfaces import Controller

        @service(flavour=trio)
        class Base(Controller):
            def __init__(self, target, alpha=1):
                super().__init__(target)

            async def run(self):
                pass

        class Derived(Base):
            def __init__(self, target, beta, gamma=2):
                super().__init__(target)

        probes = {"base": [(Base, {"alpha": 3}, True), (Base, {"beta": 3}, False)],
                  "derived": [(Derived, {"beta": 3}, True), (Derived, {"alpha": 3}, False)]}
        problems = []
        for name in case["order"]:
            for cls, kwargs, binds in probes[name]:
                try:
                    cls.s(**kwargs)
                    accepted = True
                except TypeError:
                    accepted = False
                if accepted != binds:
                    problems.append((
                        "history:derived-service-class:%s" % (
                            "rejects-bindable" if binds else "accepts-unbindable"),
                        "%s.s(%s) was %s (order of use: %s)"
                        % (cls.__name__, ", ".join("%s=..." % k for k in kwargs),
                           "accepted" if accepted else "rejected", " then ".join(case["order"]))))
        return problems
    if kind == "service-new":
        # a service class whose parameters are those of its own __new__ (e.g. instances
        # cached per key) while __init__ takes anything
        import trio

        from cobald.daemon import service
        from cobald.interfaces import Controller

        @service(flavour=trio)
        class Keyed(Controller):
            def __new__(cls, target, site, count=1):
                return super().__new__(cls)

            def __init__(self, *args, **kwargs):
                super().__init__(args[0])

            async def run(self):
                pass

        probes = [((), {"site": "a"}, True), (("a",), {}, True), (("a", 2), {}, True),
                  (("a", 2, 3), {}, False), ((), {"bogus": 1}, False),
                  (("a",), {"site": "b"}, False), ((), {"count": 2}, True)]
        problems = []
        for args, kwargs, binds in probes:
            try:
                Keyed.s(*args, **kwargs)
                accepted = True
            except TypeError:
                accepted = False
            if accepted != binds:
                problems.append((
                    "history:service-with-own-new:%s" % (
                        "rejects-bindable" if binds else "accepts-unbindable"),
                    "Keyed.s(*%r, **%r) was %s; __new__(cls, target, site, count=1)"
                    % (args, kwargs, "accepted" if accepted else "rejected")))
        return problems
    if kind == "falsy-elements":
        # elements that are falsy once constructed (an empty container-like pool, a decorator
        # that reports False) are elements like any other, under every grouping
        log, Ctrl, B, C, D, End = _history_classes()
        falsy = set(case["falsy"])

        def make(cls, how):
            if cls.__name__ not in falsy:
                return cls
            extra = {"__len__": lambda self: 0} if how == "len" else \
                    {"__bool__": lambda self: False}
            return type(cls.__name__, (cls,), extra)

        B, C, End = make(B, case["how"]), make(C, case["how"]), make(End, case["how"])
        leaves = [lambda: Ctrl.s(tag="h"), lambda: B.s("b"), lambda: C.s(tag="c"),
                  (lambda: End("e")) if case["tail"] == "instance" else (lambda: End.s("e"))]
        want_shape = ["Ctrl", "B", "C", "End"]
        want_log = [("End", "e"), ("C", "c"), ("B", "b"), ("Ctrl", "h")]
        problems = []
        for tree in groupings(0, 4):
            del log[:]
            try:
                head = walk_tree(tree, leaves)
                got = (_shape(head), [entry[:2] for entry in log])
            except Exception as err:  # noqa: B902
                got = ("raised %s: %s" % (type(err).__name__, err), None)
            linked = got[1] is not None and all(
                entry[2] is (log[index - 1][2] if False else None) or True
                for index, entry in enumerate(log))
            targets_ok = got[1] is not None and [
                type(entry[2]).__name__ if entry[2] is not None else None
                for entry in log] == [None, "End", "C", "B"]
            if got != (want_shape, want_log) or not linked or not targets_ok:
                problems.append((
                    "history:falsy-element",
                    "with %s falsy (%s) and grouping %r the chain built %r, targets %r; by "
                    "hand it is %r" % (sorted(falsy), case["how"], tree, got,
                                       [type(e[2]).__name__ for e in log], want_shape)))
                break
        return problems
    if kind == "reserved-names":
        # a constructor may call its parameters whatever it likes - also like the parameters
        # of the template machinery itself
        from cobald.interfaces import PoolDecorator

        problems = []
        for name in case["names"]:
            namespace = {"PoolDecorator": PoolDecorator}
            exec("class Deco(PoolDecorator):\n"      # noqa: S102
                 "    def __init__(self, target, %s=0):\n"
                 "        super().__init__(target)\n"
                 "        self.got = %s\n" % (name, name), namespace)
            Deco = namespace["Deco"]
            log, Ctrl, B, C, D, End = _history_classes()
            for curry in (False, True):
                try:
                    template = Deco.s()(**{name: 7}) if curry else Deco.s(**{name: 7})
                    built = template >> End()
                    ok = built.got == 7
                    what = "constructed with %s=%r" % (name, built.got)
                except Exception as err:  # noqa: B902
                    ok, what = False, "raised %s: %s" % (type(err).__name__, err)
                if not ok:
                    problems.append((
                        "history:reserved-parameter-name:%s" % name,
                        "a decorator whose constructor has a parameter called %r: %s %s"
                        % (name, "Deco.s()(%s=7)" % name if curry else "Deco.s(%s=7)" % name,
                           what)))
        return problems
    raise ValueError(kind)


HISTORY_CASES = [
    {"part": "history", "kind": "prefix-reuse", "bind_first": False},
    {"part": "history", "kind": "prefix-reuse", "bind_first": True},
    {"part": "history", "kind": "template-reuse"},
    {"part": "history", "kind": "derived-service", "order": ["base", "derived"]},
    {"part": "history", "kind": "derived-service", "order": ["derived", "base"]},
    {"part": "history", "kind": "derived-service", "order": ["base", "derived", "base"]},
] + [
    {"part": "history", "kind": "falsy-elements", "falsy": list(falsy), "how": how,
     "tail": tail}
    for falsy in (["End"], ["B"], ["C"], ["B", "C"], ["B", "C", "End"])
    for how in ("len", "bool") for tail in ("instance", "template")
] + [
    {"part": "history", "kind": "service-new"},
    {"part": "history", "kind": "reserved-names",
     "names": ["ctor", "args", "kwargs", "leaf", "cls", "other", "pool"]},
]


def shard_history(args):
    acc = Acc()
    for case in HISTORY_CASES:
        problems = run_history_case(case)
        acc.case(nontrivial_key=repr(case), sample=case)
        acc.outcome(("history", case["kind"], not problems))
        for key, what in problems:
            acc.violation(key, what, case)
    return acc


def shard(args):
    return {"generated": shard_generated, "shipped": shard_shipped,
            "binder": shard_binder, "chain": shard_chain,
            "history": shard_history}[args[0]](args)


def run(ctx):
    quick = ctx.quick
    max_params = 3
    max_pos = 3 if quick else 4
    max_names = 2 if quick else 5
    kinds_of_class = ["plain", "service:trio"]
    shards = [("history",)]
    # -- signature part
    for kinds in signatures(max_params):
        for role in ("controller", "decorator", "pool"):
            for kind in kinds_of_class:
                shards.append(("generated", role, kind, kinds, max_pos, max_names))
        # the target taken by a parameter of another name, or through *args
        for style in TARGET_STYLES[1:]:
            if style == "varargs" and kinds[:1] != (VA,):
                continue
            for kind in kinds_of_class:
                shards.append(("generated", "controller", kind, kinds, max_pos, max_names,
                               style))
        if not quick:
            for kind in ("service:asyncio", "service:threading"):
                shards.append(("generated", "controller", kind, kinds, 3, 2))
        shards.append(("binder", kinds, 4, GENERATED_NAMES))
    for name in SHIPPED:
        shards.append(("shipped", name, 1 if quick else 2, 2 if quick else 3))
    # -- chain part
    max_chain = 4 if quick else 5
    for head in ("controller", "decorator"):
        for kind in kinds_of_class:
            for size in range(2, max_chain + 1):
                chunks = {2: 1, 3: 1, 4: 4, 5: 24}[size]
                for focus in range(size):
                    for chunk in range(chunks):
                        shards.append(("chain", head, kind, size, focus, chunk, chunks))
            if quick:
                # longer chains with the reduced variants only: PartialBind holds three
                # pending templates for the first time with five elements
                shards.append(("chain", head, kind, 5, None, 0, 1))
            else:
                for chunk in range(8):
                    shards.append(("chain", head, kind, 2, "all", chunk, 8))
                shards.append(("chain", head, kind, 6, None, 0, 1))
    ctx.pmap(shard, shards)
    ctx.meta.update(
        rule="chain part: chains of n elements (a distinct recording class per position; "
             "head Controller or PoolDecorator; plain or @service classes), every "
             "parenthesisation of the >> operators, every argument set (positionals "
             "[], [1], [1,2]; keywords subset of {k, m}) in every split over 1..3 calls at "
             "one focus position (including the tail: instance / Pool.s(..) / curried) x 4 "
             "representative variants at every other position; one evaluation per "
             "(elements, tail, grouping), non-trivial when it has arguments or n > 2.  "
             "signature part: every legal signature (target + <= %d parameters of 6 kinds; "
             "for controllers also with the target parameter called pool and with the "
             "target taken through *args) x role x plain/@service x every argument list (<= %d positionals, optionally "
             "one or all Pool instances; keywords from {a,b,c,zz,target}, <= %d distinct) x "
             "every split over <= 2 calls (a keyword may be repeated); one evaluation per "
             "path of calls, non-trivial when an argument is supplied.  shipped part: the "
             "same for every shipped template owner with its real parameter names + zz + "
             "target.  Binder shards validate the reference binder against real calls."
             % (max_params, max_pos, max_names),
        exhaustive=True,
        bounds={"chain_elements": max_chain, "chain_elements_reduced_variants":
                5 if quick else 6, "curry_calls_chain": 2, "signature_parameters":
                max_params, "positionals": max_pos, "distinct_keywords": max_names,
                "calls_signature_part": 2, "signatures": len(signatures(max_params)),
                "class_kinds": kinds_of_class + ([] if quick else [
                    "service:asyncio", "service:threading"])},
    )
    ctx.assumptions += [
        "a keyword given again in a later curry call counts as a duplicated name (the "
        "merged call ctor(target, **first, **second) is a TypeError in Python)",
        "a Pool instance as the first positional argument of a controller / decorator "
        "template is an attempt to pass the target and must be refused, whatever the "
        "signature; Pool instances at other positions are ordinary values",
        "pool (leaf) templates: 'target=...' that would land in **kwargs of the pool's "
        "constructor is skipped (the statement does not say whether that is 'passing the "
        "target'); generated pool classes have no parameter called target; the same for "
        "controller classes whose target parameter has another name or that take the target "
        "through *args (styles %r of the generated classes)" % (TARGET_STYLES[1:],),
        "UnboundStepwise.s: Pool-valued arguments are not supplied (positionals are "
        "rules); the base rule and registered rules count as already supplied positionals",
        "parameter lists of shipped classes are read from their real __init__ by "
        "introspection; only the binding logic is independent",
        "shipped classes: the final bind is demanded to succeed only for semantically "
        "valid values (table SHIPPED) and only type and target identity are compared",
        "positional-only parameters are outside the grammar",
    ]


def replay(data):
    if data["part"] == "history":
        problems = run_history_case(data)
        return "; ".join(what for _, what in problems) or None
    if data["part"] == "chain":
        problems = run_chain_case(data)
        return "; ".join(what for _, _, what in problems) or None
    subject = make_subject(data["subject"])
    problems = run_sig_path(subject, data["calls"])
    if not problems:
        return None
    return "%s: %s" % (describe(subject), "; ".join(what for _, what in problems))
