"""
C06 - Standardiser always keeps the forwarded demand within its limits.

Engine: smallscope, operation-sequence BFS.  For every constructor combination of the grid
a real Standardiser over a settable pool is driven through every operation history up to
the depth bound (states deduplicated); after every transition the pool and the value read
back are compared with the limits and with a reference computation written from the class
documentation (floor to a granule, clamp by the supply window, clamp by minimum/maximum).

A state is the operation history reaching it.  ``build`` constructs fresh objects and
replays the history *without* looking at anything; the transition under test is applied to
that fresh copy and the copy is then observed (and thrown away), so that the observations
of the harness never become part of a history - reading ``Standardiser.demand`` is an
operation of the alphabet, because the getter may resynchronise.
"""
import itertools
import math
from fractions import Fraction

from vlib.smallest import SmallestAcc as Acc

INF = float("inf")

# -- alphabets -------------------------------------------------------------------------

GRID = {
    "quick": {
        "minimum": [-INF, 0, 2, 2.5],
        "maximum": [INF, 7, 7.5],
        "granularity": [1, 2, 3, 0.5],
        "surplus": [INF, 1, 1.5],
        "backlog": [INF, 1, 2.5],
    },
    # thorough: additionally minimum == maximum, a maximum below some minima (rejected
    # combinations inside the grid), a granule that does not divide the bounds
    "thorough": {
        "minimum": [-INF, 0, 2, 2.5, 7],
        "maximum": [INF, 7, 7.5, 2.5],
        "granularity": [1, 2, 3, 0.5, 1.5],
        "surplus": [INF, 1, 1.5],
        "backlog": [INF, 1, 2.5],
    },
}
#: values for the acceptance test of the constructor (valid and invalid ones)
CONSTRUCTOR_GRID = {
    "minimum": [-INF, -3, 0, 2, 2.5, 7, 7.5, 8, INF],
    "maximum": [INF, 7, 7.5, 2, 0, -INF],
    "granularity": [1, 2, 3, 0.5, 0, -1, -0.5],
    "surplus": [INF, 1, 1.5, 0, 0.0, -1, -INF],
    "backlog": [INF, 1, 2.5, 0, -2.5],
}
PARAMETERS = ("minimum", "maximum", "granularity", "surplus", "backlog")
UTILISATION, ALLOCATION = 0.25, 0.75
INCREMENTS = (2, 3)  # n of "n x (+= 1) has the same effect as += n"


def _both(ints):
    return list(ints) + [float(v) for v in ints]


ALPHABET = {
    "quick": {
        "supplies": [0, 3, 4.5],
        "writes": _both([-1, 0, 1, 2, 3, 5, 6, 7, 8, 10]) + [2.5, 7.25],
        "outside": [0, 4, 6.5],
    },
    "thorough": {
        "supplies": [0, 3, 4.5, 1.5],
        "writes": _both([-1, 0, 1, 2, 3, 4, 5, 6, 7, 8, 9, 10]) + [2.5, 7.25, 4.5, 5.75],
        "outside": [0, 4, 6.5, 2.5],
    },
}


def operations(tier):
    alphabet = ALPHABET[tier]
    return (
        [["w", v] for v in alphabet["writes"]]
        + [["inc", 1], ["read"]]
        + [["supply", s] for s in alphabet["supplies"]]
        + [["outside", o] for o in alphabet["outside"]]
    )


TRUNCATION_KEY = "int-write-truncates-fractional-bound"


# -- objects ---------------------------------------------------------------------------


def make_pool_class():
    from cobald.interfaces import Pool

    class SettablePool(Pool):
        """Pool whose every attribute is a plain, settable attribute"""

        demand, supply, utilisation, allocation = 0, 0, 0.0, 0.0

        def __init__(self, demand, supply, utilisation, allocation):
            self.demand = demand
            self.supply = supply
            self.utilisation = utilisation
            self.allocation = allocation

    return SettablePool


_POOL_CLASS = []


def new_pool(supply):
    if not _POOL_CLASS:
        _POOL_CLASS.append(make_pool_class())
    return _POOL_CLASS[0](0, supply, UTILISATION, ALLOCATION)


def apply(std, pool, op):
    kind = op[0]
    if kind == "w":
        std.demand = op[1]
    elif kind == "inc":
        std.demand += op[1]
    elif kind == "read":
        return std.demand
    elif kind == "supply":
        pool.supply = op[1]
    elif kind == "outside":
        pool.demand = op[1]
    else:
        raise ValueError(op)
    return None


def build(params, supply0, hist):
    """Fresh pool and Standardiser, brought to the state after ``hist``"""
    from cobald.decorator.standardiser import Standardiser

    pool = new_pool(supply0)
    std = Standardiser(pool, **params)
    for op in hist:
        apply(std, pool, op)
    return std, pool


# -- reference (from the Standardiser documentation and the property statement) ---------
#
#   supply - backlog <= demand <= supply + surplus      ("the supply window")
#   granularity has the weakest priority, surplus and backlog may limit the result of
#   granularity, minimum and maximum overrule all other limits.


def clamp(value, low, high):
    return max(low, min(value, high))


def whole(value):
    return value == math.floor(value)


def reference(params, supply, value):
    """(demand forwarded to the target or None if undefined, demand read back)"""
    granule = params["granularity"]
    low, high = supply - params["backlog"], supply + params["surplus"]
    if granule == 1 and not whole(value):
        # granularity 1 is the documented "no limit" default: what happens to the
        # fractional part of a demand is not defined by the documentation
        forwarded = None
    else:
        floored = math.floor(Fraction(value) / Fraction(granule)) * granule
        forwarded = clamp(clamp(floored, low, high), params["minimum"], params["maximum"])
    readback = clamp(clamp(value, low, high), params["minimum"], params["maximum"])
    return forwarded, readback


def limit_problems(params, supply, what, got):
    """The limit clauses of the property for one observed demand"""
    problems = []
    minimum, maximum = params["minimum"], params["maximum"]
    low, high = supply - params["backlog"], supply + params["surplus"]
    if not (minimum <= got <= maximum):
        problems.append(("%s-outside-minimum-maximum" % what,
                         "%s demand %r is outside [%r, %r]" % (what, got, minimum, maximum)))
    # "unless minimum/maximum force otherwise": the window and [minimum, maximum] overlap
    if high >= minimum and low <= maximum and not (low <= got <= high):
        problems.append(("%s-outside-supply-window" % what,
                         "%s demand %r is outside the supply window [%r, %r] although "
                         "[%r, %r] allows to respect it" % (what, got, low, high,
                                                            minimum, maximum)))
    return problems


def same(a, b):
    return a == b and type(a) is type(b)


def passthrough_problems(std, pool):
    problems = []
    for name in ("supply", "utilisation", "allocation"):
        try:
            through, direct = getattr(std, name), getattr(pool, name)
        except Exception as err:  # noqa: B902
            problems.append(("passthrough-raises",
                             "reading %s raised %s: %s" % (name, type(err).__name__, err)))
            continue
        if not same(through, direct):
            problems.append(("passthrough-%s" % name,
                             "%s read through the Standardiser is %r, the pool's is %r"
                             % (name, through, direct)))
    return problems


# -- one transition --------------------------------------------------------------------


class Step:
    """Outcome of checking the transition ``prefix`` -> ``prefix + [op]``"""

    __slots__ = ("problems", "info", "key", "outcome", "nontrivial")

    def __init__(self):
        self.problems = []      # [(violation key, text)]
        self.info = None        # (last observed Standardiser.demand, clean) afterwards
        self.key = None         # canonical state afterwards
        self.outcome = None
        self.nontrivial = False


def describe(value):
    return "%s %r" % (type(value).__name__, value)


def check_step(params, supply0, prefix, op, info):
    """Apply ``op`` after ``prefix`` on fresh objects and evaluate the oracle.

    ``info`` = (demand read from the Standardiser at the last write/read of ``prefix``,
    whether no supply change / outside write happened since the last write)."""
    step = Step()
    last_obs, clean = info
    kind = op[0]
    written = None
    try:
        if kind == "inc":
            # the value a `+= n` writes: the demand read at that moment, plus n
            twin, _ = build(params, supply0, prefix)
            written = twin.demand + op[1]
        elif kind == "w":
            written = op[1]
        std, pool = build(params, supply0, prefix)
    except Exception as err:  # noqa: B902
        step.problems.append(("replay-raises", "replaying %r raised %s: %s"
                              % (prefix, type(err).__name__, err)))
        return step
    granule = params["granularity"]
    supply = pool.supply
    before = pool.demand
    try:
        result = apply(std, pool, op)
    except Exception as err:  # noqa: B902
        step.problems.append(("%s-raises" % kind, "%r raised %s: %s"
                              % (op, type(err).__name__, err)))
        return step
    outcome = [kind]
    if written is not None:
        forwarded, readback = pool.demand, None
        try:
            readback = std.demand
        except Exception as err:  # noqa: B902
            step.problems.append(("read-raises", "reading the demand after %r raised %s: %s"
                                  % (op, type(err).__name__, err)))
            return step
        want_forwarded, want_readback = reference(params, supply, written)
        found = limit_problems(params, supply, "forwarded", forwarded)
        if want_forwarded is not None and forwarded != want_forwarded:
            found.append(("forwarded-differs-from-reference",
                          "forwarded demand is %s, the documented order of limits (floor "
                          "to granule, supply window, minimum/maximum) gives %r"
                          % (describe(forwarded), want_forwarded)))
        found += limit_problems(params, supply, "readback", readback)
        if readback != want_readback:
            found.append(("readback-differs-from-reference",
                          "demand read back is %s, the limited but unrounded value is %r"
                          % (describe(readback), want_readback)))
        if not abs(readback - forwarded) < granule:
            found.append(("readback-granule-away",
                          "demand read back %r is not less than one granule (%r) away "
                          "from the target's demand %r" % (readback, granule, forwarded)))
        if found:
            truncated = isinstance(written, int) and (
                (want_forwarded is not None and not whole(want_forwarded)
                 and forwarded == math.trunc(want_forwarded))
                or (not whole(want_readback) and readback == math.trunc(want_readback))
            )
            head = "write of %s at supply %r: " % (describe(written), supply)
            if truncated:
                found = [(TRUNCATION_KEY, "; ".join(text for _, text in found))]
            step.problems += [(key, text if index else head + text)
                              for index, (key, text) in enumerate(found)]
        last_obs, clean = readback, True
        outcome += [
            want_forwarded is None,
            want_forwarded is not None and want_forwarded != written,
            want_readback != written,
            isinstance(written, int),
        ]
        step.nontrivial = want_readback != written or (
            want_forwarded is not None and want_forwarded != written)
    elif kind == "read":
        target = pool.demand
        if not abs(result - target) < granule:
            step.problems.append(("read-granule-away",
                                  "demand read %r is not less than one granule (%r) away "
                                  "from the target's demand %r" % (result, granule, target)))
        if clean:
            # nothing moved since the last write: still the limited, unrounded value
            step.problems += limit_problems(params, supply, "read", result)
            if result != last_obs:
                step.problems.append(("read-differs-from-last-write",
                                      "demand read is %s, after the last write it was %r"
                                      % (describe(result), last_obs)))
        outcome += [clean, result == target]
        step.nontrivial = result != last_obs
        last_obs = result
    else:
        clean = False
        outcome += [before == pool.demand and supply == pool.supply]
    step.problems += passthrough_problems(std, pool)
    step.info = (last_obs, clean)
    step.key = repr((last_obs, pool.demand, pool.supply, clean))
    step.outcome = tuple(outcome)
    return step


def check_increments(params, supply0, hist, count):
    """``count`` increments of 1 against one increment of ``count``; None if equal"""
    observed = []
    for ops in ([["inc", 1]] * count, [["inc", count]]):
        try:
            std, pool = build(params, supply0, hist)
            for op in ops:
                apply(std, pool, op)
            observed.append(std.demand)
        except Exception as err:  # noqa: B902
            return "%r after %r raised %s: %s" % (ops, hist, type(err).__name__, err)
    if observed[0] != observed[1]:
        return ("after %d increments of 1 the demand read back is %r, after one increment "
                "of %d it is %r" % (count, observed[0], count, observed[1]))
    return None


# -- constructor ------------------------------------------------------------------------


def documented_rejection(params):
    reasons = []
    if params["minimum"] > params["maximum"]:
        reasons.append("minimum > maximum")
    for name in ("surplus", "backlog", "granularity"):
        if params[name] <= 0:
            reasons.append("%s <= 0" % name)
    return reasons


def check_constructor(params):
    """None, or (key, text) if accepting/rejecting ``params`` is not as documented"""
    reasons = documented_rejection(params)
    try:
        build(params, 0, [])
    except Exception as err:  # noqa: B902
        if not reasons:
            return ("constructor-rejects-valid",
                    "%r rejected with %s: %s" % (params, type(err).__name__, err))
        return None
    if reasons:
        return ("constructor-accepts-invalid:" + reasons[0].split(" ")[0],
                "%r accepted although %s" % (params, ", ".join(reasons)))
    return None


# -- shards ----------------------------------------------------------------------------


DEFAULTS = {"minimum": -INF, "maximum": INF, "granularity": 1, "surplus": INF,
            "backlog": INF}


def unusual(params):
    """How many parameters differ from the defaults of the constructor"""
    return sum(1 for name in PARAMETERS if params[name] != DEFAULTS[name])


def shard_constructor(_):
    acc = Acc()
    for values in itertools.product(*(CONSTRUCTOR_GRID[name] for name in PARAMETERS)):
        params = dict(zip(PARAMETERS, values))
        problem = check_constructor(params)
        reasons = documented_rejection(params)
        acc.case(nontrivial_key=repr(params) if reasons else None,
                 sample=params if len(reasons) == 1 and acc.evaluations % 499 == 0 else None)
        acc.outcome(("constructor", tuple(reasons)))
        acc.count("constructor-rejected" if reasons else "constructor-accepted")
        if problem:
            acc.violation(problem[0], problem[1], {"kind": "constructor", "params": params},
                          size=(0, unusual(params)))
    return acc


def shard_bfs(args):
    _, params, depth, tier = args
    ops, supplies = operations(tier), ALPHABET[tier]["supplies"]
    acc = Acc()
    problem = check_constructor(params)
    if problem:
        acc.violation(problem[0], problem[1], {"kind": "constructor", "params": params},
                      size=(0, unusual(params)))
        return acc
    if documented_rejection(params):
        acc.count("grid-combination-rejected")
        return acc
    acc.count("grid-combination-explored")
    for supply0 in supplies:
        seen = set()
        base = {"kind": "history", "params": params, "supply0": supply0}
        # the initial state: nothing written yet, hence not "clean"
        frontier = [([], (0, False))]
        seen.add(repr((0, 0, supply0, False)))
        for _ in range(depth):
            successors = []
            for hist, info in frontier:
                if info[1]:
                    for count in INCREMENTS:
                        problem = check_increments(params, supply0, hist, count)
                        acc.case()
                        if problem:
                            acc.violation("increments-differ", problem,
                                          dict(base, kind="increments", hist=hist, n=count),
                                          size=(len(hist) + count, unusual(params)))
                for op in ops:
                    step = check_step(params, supply0, hist, op, info)
                    acc.transitions += 1
                    acc.case(
                        nontrivial_key=(repr((params, supply0, step.key))
                                        if step.nontrivial else None),
                        sample=(dict(base, hist=hist + [op])
                                if step.nontrivial and acc.transitions % 7919 == 0 else None),
                    )
                    if step.nontrivial:
                        acc.count("transitions-with-active-limit-or-resync")
                    acc.outcome(step.outcome)
                    if step.problems:
                        # one key per broken transition: the first clause that fails
                        text = "; ".join(text for _, text in step.problems)
                        acc.violation(step.problems[0][0], "%r, supply %r, history %r: %s"
                                      % (params, supply0, hist + [op], text),
                                      dict(base, hist=hist + [op]),
                                      size=(len(hist) + 1, unusual(params)))
                        continue  # a broken state is not explored further
                    if step.key not in seen:
                        seen.add(step.key)
                        successors.append((hist + [op], step.info))
            frontier = successors
        acc.states += len(seen)
    return acc


BIG_WRITES = [2 ** 53 + 3, 2 ** 60 + 7, -(2 ** 53) - 3, 10 ** 30 + 1]
FLICKER_SUPPLIES = [(0, 10), (10, 0), (3, 4.5), (0, 3)]


def check_special(params, case):
    """One write on a fresh Standardiser with (a) an int beyond 2**53 - floor to a granule
    and the clamps are exact for ints of any size - or (b) a target whose supply changes
    between two reads inside the write: what is forwarded must respect the window of one of
    the two supplies it was told"""
    from cobald.decorator.standardiser import Standardiser

    if case[0] == "big":
        value = case[1]
        pool = new_pool(0)
        std = Standardiser(pool, **params)
        std.demand = value
        want, readback = reference(params, 0, value)
        if want is not None and pool.demand != want:
            return ("big-int:forwarded-differs-from-reference",
                    "%r: wrote %r, the target got %r, floor to a granule and the clamps give "
                    "%r" % (params, value, pool.demand, want))
        got = std.demand
        if got != readback:
            return ("big-int:readback-differs",
                    "%r: wrote %r, read back %r, expected %r" % (params, value, got, readback))
        return None
    _, value, first, second = case
    pool_class = make_pool_class()
    reads = []

    class Flicker(pool_class):
        @property
        def supply(self):
            reads.append(len(reads))
            return first if len(reads) == 1 else second

        @supply.setter
        def supply(self, value):
            pass

    pool = Flicker(0, first, UTILISATION, ALLOCATION)
    std = Standardiser(pool, **params)
    del reads[:]
    std.demand = value
    allowed = [reference(params, supply, value)[0] for supply in (first, second)]
    if None in allowed:
        return None
    if len(reads) and pool.demand not in allowed:
        return ("supply-read-twice-in-one-write",
                "%r: the target reported supply %r, then %r during one write of %r; it got "
                "%r, which is right for neither (%r)" % (params, first, second, value,
                                                         pool.demand, allowed))
    return None


def shard_special(args):
    _, params, tier = args
    acc = Acc()
    if check_constructor(params) or documented_rejection(params):
        return acc
    cases = []
    if params["granularity"] == int(params["granularity"]):
        cases += [("big", value) for value in BIG_WRITES]
    cases += [("flicker", value, first, second)
              for value in ALPHABET[tier]["writes"] for first, second in FLICKER_SUPPLIES]
    for case in cases:
        try:
            problem = check_special(params, case)
        except Exception as err:  # noqa: B902
            problem = ("special-raised-%s" % type(err).__name__,
                       "%r %r: %s: %s" % (params, case, type(err).__name__, err))
        acc.case(nontrivial_key=repr((params, case)))
        acc.transitions += 1
        acc.outcome((case[0], problem is None))
        if problem:
            acc.violation(problem[0], problem[1],
                          {"kind": "special", "params": params, "case": list(case)},
                          size=(1, unusual(params)))
    return acc


def shard(args):
    if args[0] == "special":
        return shard_special(args)
    return (shard_constructor if args[0] == "constructor" else shard_bfs)(args)


# ---------------------------------------------------------------------------------------


def run(ctx):
    depth = 3 if ctx.quick else 4
    grid = GRID[ctx.tier]
    shards = [("constructor",)]
    for values in itertools.product(*(grid[name] for name in PARAMETERS)):
        shards.append(("bfs", dict(zip(PARAMETERS, values)), depth, ctx.tier))
        shards.append(("special", dict(zip(PARAMETERS, values)), ctx.tier))
    ctx.acc = Acc()
    ctx.pmap(shard, shards)
    ctx.acc.settle()  # per key, the shortest history on the fewest non-default parameters
    ctx.meta.update(
        rule="BFS over operation histories up to the depth bound, for every constructor "
             "combination of the grid x every initial supply; successors of a state: every "
             "operation of the alphabet; states deduplicated by (Standardiser.demand as "
             "read at the last write/read incl. type, pool.demand, pool.supply, nothing "
             "moved since the last write); oracle after every transition; in every state "
             "with nothing moved since the last write additionally n x (+= 1) against "
             "+= n; a transition is non-trivial when a limit or the rounding changed the "
             "written value or a read resynchronised; plus the full product of the "
             "constructor grid for acceptance/rejection",
        exhaustive=True,
        bounds={"depth": depth, "grid": grid,
                "initial_supply": ALPHABET[ctx.tier]["supplies"],
                "supply_changes": ALPHABET[ctx.tier]["supplies"],
                "initial_pool_demand": 0, "writes": ALPHABET[ctx.tier]["writes"],
                "outside_writes": ALPHABET[ctx.tier]["outside"],
                "increments": list(INCREMENTS), "constructor_grid": CONSTRUCTOR_GRID,
                "operations": len(operations(ctx.tier))},
    )
    ctx.assumptions += [
        "granularity 1 is the documented 'no limit' default: for granularity 1 the value "
        "forwarded for a demand with a fractional part is compared with the limits only, "
        "not with the rounding reference",
        "granules, limits and demands are exactly representable binary fractions; demands "
        "are finite ints and floats",
        "limit clauses on a read are checked only while no supply change / outside write "
        "of the target's demand happened since the last write; n x (+= 1) == += n is "
        "checked in those states only, and on the demand read back only: with the "
        "documented priority order the target's demand is clamp(floor(v)), which is not a "
        "function of clamp(v) (window [2, 4.5], granule 3: 5.5 -> 3 but 6 -> 4.5), so the "
        "target's demand may differ between the two ways although the reference is met; "
        "after an outside write only 'less than one granule away from the target's "
        "demand' is required of a read",
        "single writes on a fresh object with ints beyond 2**53 (%r; int granularities only) "
        "against the exact reference; and with a target whose supply changes between two "
        "reads inside one write (%r): the forwarded demand must be right for one of the two"
        % (BIG_WRITES, FLICKER_SUPPLIES),
        "a rejected constructor call may raise any Exception; passing through means equal "
        "value and type",
        "a state in which the property is already broken is reported and not explored "
        "further",
    ]


def decode(value):
    if isinstance(value, str):
        return float(value)
    return value


def replay(data):
    params = {name: decode(value) for name, value in data["params"].items()}
    if data["kind"] == "special":
        problem = check_special(params, tuple(data["case"]))
        return problem and "%s: %s" % problem
    if data["kind"] == "constructor":
        problem = check_constructor(params)
        return problem and problem[1]
    supply0 = decode(data["supply0"])
    hist = [[op[0]] + [decode(v) for v in op[1:]] for op in data["hist"]]
    info = (0, False)
    for index, op in enumerate(hist):
        step = check_step(params, supply0, hist[:index], op, info)
        if step.problems:
            return "after %r: %s" % (hist[:index + 1],
                                     "; ".join(text for _, text in step.problems))
        info = step.info
    if data["kind"] == "increments":
        return check_increments(params, supply0, hist, data["n"])
    return None
