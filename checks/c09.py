"""
C09 - periodic services act once per interval, for as long as they run.

Engine: trioclock.  The real ``run()`` of every shipped periodic service is executed under
a virtual clock next to an environment task that performs a timed history of actions
(times before, on and after every period boundary) and cancels the service at the end of
the run duration; whenever the environment acts at the instant the service wakes up, both
orders are executed.  Everything observable (pool reads and writes, rule / sub-controller
/ factory calls, environment actions) goes to one time-stamped log; the oracle is
evaluated on that log.
"""
import itertools

from vlib.core import Acc

SERVICES = ["LinearController", "RelativeSupplyController", "Stepwise", "DemandSwitch",
            "Buffer", "FactoryPool"]
PERIODS = [0.5, 1, 3]
DURATIONS = [0, 0.5, 1, 1.5, 2, 2.5, 3, 3.5, 5, 5.5]   # in periods
EPS = 0.25                                             # in periods
LINEAR_RATE = {0.5: 3, 1: 1, 3: 0.5}
STATES = {"down": (0.125, 0.125), "dead": (0.5, 0.5), "up": (0.875, 0.875)}

#: environment alphabet and initial conditions per service
ACTIONS = {
    "LinearController": [("state", "down"), ("state", "dead"), ("state", "up")],
    "RelativeSupplyController": [("supply", 4.0), ("supply", 10.0), ("state", "down")],
    "Stepwise": [("supply", 0.0), ("supply", 5.0), ("supply", 10.0)],
    "DemandSwitch": [("demand", 0.0), ("demand", 5.0), ("demand", 10.0)],
    "Buffer": [("write", 3.0), ("write", 7.0), ("write", 0.0)],
    "FactoryPool": [("demand", 0.0), ("demand", 1.0), ("demand", 3.0), ("quit", None)],
}
INITS = {
    "LinearController": ["down", "dead", "up"],
    "RelativeSupplyController": ["up"],
    "Stepwise": [0.0, 10.0],
    "DemandSwitch": [0.0],
    "Buffer": [3.0],
    "FactoryPool": [1.0],
}


# ---------------------------------------------------------------------------------------
# scenarios: fresh real objects + the environment's actions


def capped_pool(log, cap):
    """A pool that does not take on more demand than its (changeable) limit: a site with a
    quota (the environment only ever lifts the limit: a pool that cuts its demand
    on its own would break the bound by itself). What it settles on is logged as a "stored" entry next to the requested write"""
    from vlib import trioclock

    class CappedPool(trioclock.RecordingPool):
        limit = cap

        @property
        def demand(self):
            return self._get("demand")

        @demand.setter
        def demand(self, value):
            self._record("set", "demand", value)
            self.state["demand"] = value if self.limit is None else min(value, self.limit)
            self.log.append((trioclock.now(), "stored", self.name, "demand",
                             self.state["demand"]))

    return CappedPool(log, demand=3.0, supply=4.0)


#: a Buffer asked for values that differ in the last place only (ints beyond 2**53, floats
#: one part in 10**10 apart): the target gets exactly the value written last
CLOSE_WRITES = [("write", 2 ** 60 + 1), ("write", 2 ** 60), ("write", 1000.0000001),
                ("write", 1000.0)]
#: environment alphabet of the runs against a capped pool (LinearController)
CAP_ACTIONS = [("cap", None), ("state", "down"), ("state", "up")]


class Scenario:
    """Fresh objects for one execution"""

    def __init__(self, case):
        from vlib import trioclock

        self.case = case
        self.log = log = []
        self.period = period = case["period"]
        self.keep = []
        service, init = case["service"], case["init"]
        pool = self.pool = trioclock.RecordingPool(log, demand=3.0, supply=4.0)
        if case.get("cap") is not None:
            pool = self.pool = capped_pool(log, case["cap"])
            init = "up"
        if service == "LinearController":
            from cobald.controller.linear import LinearController

            utilisation, allocation = STATES[init]
            pool.state.update(demand=20.0, utilisation=utilisation, allocation=allocation)
            self.rate = LINEAR_RATE[period]
            self.service = LinearController(pool, low_utilisation=0.5, high_allocation=0.5,
                                            rate=self.rate, interval=period)
        elif service == "RelativeSupplyController":
            from cobald.controller.relative_supply import RelativeSupplyController

            utilisation, allocation = STATES[init]
            pool.state.update(utilisation=utilisation, allocation=allocation)
            self.service = RelativeSupplyController(pool, interval=period)
        elif service == "Stepwise":
            from cobald.controller.stepwise import stepwise

            pool.state.update(supply=init)

            @stepwise
            def control(target, interval):
                log.append((trioclock.now(), "step", "rule0", None, None))
                return None

            @control.add(supply=5.0)
            def high(target, interval):
                log.append((trioclock.now(), "step", "rule1", None, 7.0))
                return 7.0

            @control.add(supply=10.0)
            def drained(target, interval):
                # the last step of draining a pool: a result of exactly zero
                log.append((trioclock.now(), "step", "rule2", None, 0.0))
                return 0.0

            self.service = control(pool, interval=period)
        elif service == "DemandSwitch":
            from cobald.controller.switch import DemandSwitch
            from cobald.interfaces import Controller

            class Sub(Controller):
                def __init__(self, target, name, bump):
                    super().__init__(target)
                    self.name, self.bump = name, bump

                def regulate(self, interval):
                    log.append((trioclock.now(), "step", self.name, None, interval))
                    if self.bump:
                        self.target.demand = self.target.demand + self.bump

            pool.state.update(demand=init)
            self.service = DemandSwitch(pool, Sub(pool, "default", 2.0), 5.0,
                                        Sub(None, "slave", 0.0), interval=period)
        elif service == "Buffer":
            from cobald.decorator.buffer import Buffer

            pool.state.update(demand=init)
            self.service = Buffer(pool, window=period)
        elif service == "FactoryPool":
            from cobald.composite.factory import FactoryPool

            def factory():
                log.append((trioclock.now(), "factory", "factory", None, None))
                child = trioclock.RecordingPool(
                    log, name="child%d" % len(self.keep), demand=1.0, supply=1.0)
                self.keep.append(child)
                return child

            first = trioclock.RecordingPool(log, name="child0", demand=1.0, supply=1.0)
            self.keep.append(first)
            self.service = FactoryPool(first, factory=factory, interval=period)
            self.service.demand = init
        else:
            raise ValueError(service)
        del log[:]
        self.actions = [(when, self.action(kind, value)) for when, kind, value in case["history"]]

    def action(self, kind, value):
        from vlib import trioclock

        pool, log, service = self.pool, self.log, self.service
        name = self.case["service"]
        if kind == "state":
            utilisation, allocation = STATES[value]
            return lambda: pool.poke(utilisation=utilisation, allocation=allocation)
        if kind == "supply":
            return lambda: pool.poke(supply=value)
        if kind == "cap":
            def set_cap():
                log.append((trioclock.now(), "env", "pool", "cap", value))
                pool.limit = value
            return set_cap
        if kind == "stall":
            def stall():
                # the event loop is stalled (a blocking call elsewhere): time passes, nobody runs
                import trio

                log.append((trioclock.now(), "env", "loop", "stall", value))
                trio.lowlevel.current_clock().jump(value)
            return stall
        if kind == "quit":
            def quit_child():
                # the oldest child disables itself but keeps draining its supply
                log.append((trioclock.now(), "env", "factorypool", "quit", None))
                self.keep[0].state.update(demand=0)
            return quit_child
        if kind == "demand" and name == "FactoryPool":
            def set_demand():
                log.append((trioclock.now(), "env", "factorypool", "demand", value))
                service.demand = value
            return set_demand
        if kind == "demand":
            return lambda: pool.poke(demand=value)
        if kind == "write":
            def write():
                log.append((trioclock.now(), "env", "buffer", "demand", value))
                service.demand = value
            return write
        raise ValueError(kind)


# ---------------------------------------------------------------------------------------
# oracle


def exception_key(service, err):
    text = type(err).__name__
    if isinstance(err, AttributeError) and getattr(err, "name", None):
        text += "-%s" % err.name
    return "%s.run:%s" % (service, text)


def grid(period, duration, first):
    """period boundaries first*T, (first+1)*T, ... <= duration"""
    out, k = [], first
    while k * period <= duration:
        out.append(k * period)
        k += 1
    return out


def judge(case, scenario, run):
    """None, or (key, description) - how this execution breaks the statement"""
    service, period, log = case["service"], case["period"], scenario.log
    duration = case["duration"] * period
    if run.runaway:
        return "%s.run:virtual-time-stalls" % service, (
            "run() keeps running without letting time pass (%s) at t=%s" % (
                run.runaway, run.end_time))
    if run.exception is not None:
        from vlib import trioclock

        if isinstance(run.exception, trioclock.Runaway):
            return "%s.run:virtual-time-stalls" % service, (
                "run() keeps acting without letting time pass (%s)" % run.exception)
        return exception_key(service, run.exception), (
            "run() raised %s: %s at t=%s" % (
                type(run.exception).__name__, run.exception, run.ended_at))
    if run.returned:
        return "%s.run:returned" % service, "run() returned at t=%s instead of running on" % (
            run.ended_at,)
    if any(kind == "stall" for _when, kind, _value in case["history"]):
        return judge_stalled(case, scenario, period)
    if service == "Buffer":
        return judge_buffer(case, scenario, period, duration)
    # instants at which the service acted, and how many steps it made there
    steps = {}
    if service in ("Stepwise", "DemandSwitch"):
        for entry in log:
            if entry[1] == "step":
                steps[entry[0]] = steps.get(entry[0], 0) + 1
    elif service == "FactoryPool":
        # adjusting is idempotent; any inspection of a child or factory call counts once
        for entry in log:
            if entry[1] != "env":
                steps[entry[0]] = 1
    else:
        # one step = one demand write; a step that may legitimately not write (dead band)
        # still has to look at the pool
        for entry in log:
            if entry[1] == "get":
                steps.setdefault(entry[0], 0)
        for entry in log:
            if entry[1] == "set" and entry[3] == "demand":
                steps[entry[0]] = steps.get(entry[0], 0) + 1
        steps = {when: max(count, 1) for when, count in steps.items()}
    first = 1 if service == "FactoryPool" else 0
    expected = grid(period, duration, first)
    what = "adjustment" if service == "FactoryPool" else "regulation step"
    for when in sorted(steps):
        if when not in expected:
            if when == 0:
                kind = "acts-at-start"
            else:
                kind = "acts-off-period"
            return "%s.run:%s" % (service, kind), (
                "%s at t=%s, expected only at %s" % (what, when, expected))
    for when in expected:
        count = steps.get(when, 0)
        if count > 1:
            return "%s.run:several-steps-per-period" % service, (
                "%d %ss at t=%s" % (count, what, when))
        if count == 0 and when < duration:
            kind = "no-step-at-start" if when == 0 else "missed-period"
            return "%s.run:%s" % (service, kind), (
                "no %s at t=%s (acted at %s, run lasted %s)" % (
                    what, when, sorted(steps), duration))
    if service == "DemandSwitch":
        # the step of the switch is the step of the controller it selects: for one interval
        for entry in log:
            if entry[1] == "step" and entry[4] != period:
                return "DemandSwitch.run:step-for-another-interval", (
                    "at t=%s controller %r was told to regulate for %r, the interval is %r"
                    % (entry[0], entry[2], entry[4], period))
    if service == "Stepwise":
        # a step whose rule returns a number sets the demand to it, at that instant
        for entry in log:
            if entry[1] == "step" and entry[4] is not None and entry[0] < duration:
                written = [e[4] for e in log if e[1] == "set" and e[3] == "demand"
                           and e[0] == entry[0]]
                if entry[4] not in written:
                    return "Stepwise.run:step-without-effect", (
                        "the rule called at t=%s returned %r, demand writes at that instant: %r"
                        % (entry[0], entry[4], written))
    if service == "FactoryPool":
        # a pool that shrinks releases a child only while the others still cover the request
        demand_of, request = {"child0": 1.0}, case["init"]
        for when, kind, name, attribute, value in log:
            if kind == "factory":
                demand_of["child%d" % len(demand_of)] = 1.0
            elif kind == "env" and name == "factorypool" and attribute == "demand":
                request = value
            elif kind == "env" and attribute == "quit":
                demand_of["child0"] = 0
            elif kind == "set" and attribute == "demand" and name in demand_of:
                released = value == 0 and demand_of[name] > 0
                demand_of[name] = value
                covered = sum(v for v in demand_of.values() if v > 0)
                if released and covered < request and when < duration:
                    return "FactoryPool.run:released-below-request", (
                        "at t=%s the pool released %s although the children left in demand "
                        "provide %s of the requested %s" % (when, name, covered, request))
        # what an adjustment is for: once a boundary has passed after the last environment
        # action, the children still in demand cover the request
        last_action = max([entry[0] for entry in log if entry[1] == "env"] + [0.0])
        settled = [when for when in expected if last_action < when < duration]
        if settled:
            request = scenario.service.demand
            covered = sum(child.state["demand"] for child in scenario.keep
                          if child.state["demand"] > 0)
            # the documented decision: the pool shrinks while its supply (released children
            # that still drain included) exceeds the demand, and grows otherwise - only a
            # pool that was to grow has to cover the request
            supply = sum(child.state["supply"] for child in scenario.keep)
            if supply <= request and covered < request:
                return "FactoryPool.run:adjustment-without-effect", (
                    "after the boundaries %s (last environment action at t=%s) the children in "
                    "demand provide %s of the requested %s" % (settled, last_action, covered,
                                                               request))
    if service == "LinearController":
        points = [(0.0, 20.0)]
        settled = "stored" if case.get("cap") is not None else "set"
        for entry in log:
            if entry[1] == settled and entry[3] == "demand":
                points.append((entry[0], entry[4]))
        rate = scenario.rate
        for (t1, v1), (t2, v2) in itertools.combinations(points, 2):
            if abs(v2 - v1) > rate * (t2 - t1 + period) + 1e-9:
                return "LinearController.run:rate-bound", (
                    "demand went from %s at t=%s to %s at t=%s: more than rate x (span + "
                    "interval) = %s" % (v1, t1, v2, t2, rate * (t2 - t1 + period)))
    return None


def judge_stalled(case, scenario, period):
    """After a stall the schedule may shift, but still: one step per interval of elapsed
    time - never several steps at one instant - and LinearController's bound over any span"""
    service, log = case["service"], scenario.log
    steps = {}
    if service in ("Stepwise", "DemandSwitch"):
        for entry in log:
            if entry[1] == "step":
                steps[entry[0]] = steps.get(entry[0], 0) + 1
    elif service in ("LinearController", "RelativeSupplyController"):
        for entry in log:
            if entry[1] == "set" and entry[3] == "demand":
                steps[entry[0]] = steps.get(entry[0], 0) + 1
    for when, count in sorted(steps.items()):
        if count > 1:
            return "%s.run:several-steps-per-period" % service, (
                "%d regulation steps at t=%s after the event loop had been stalled (%r)"
                % (count, when, case["history"]))
    instants = sorted(steps)
    for first, second in zip(instants, instants[1:]):
        if second - first < period - 1e-9:
            return "%s.run:steps-closer-than-interval" % service, (
                "regulation steps at t=%s and t=%s, interval %s (%r)"
                % (first, second, period, case["history"]))
    if service == "LinearController":
        points = [(0.0, 20.0)]
        settled = "stored" if case.get("cap") is not None else "set"
        for entry in log:
            if entry[1] == settled and entry[3] == "demand":
                points.append((entry[0], entry[4]))
        rate = scenario.rate
        for (t1, v1), (t2, v2) in itertools.combinations(points, 2):
            if abs(v2 - v1) > rate * (t2 - t1 + period) + 1e-9:
                return "LinearController.run:rate-bound", (
                    "demand went from %s at t=%s to %s at t=%s: more than rate x (span + "
                    "interval) = %s" % (v1, t1, v2, t2, rate * (t2 - t1 + period)))
    return None


def judge_buffer(case, scenario, period, duration):
    log = scenario.log
    initial = case["init"]
    boundaries = grid(period, duration, 0)
    target_writes = [e for e in log if e[1] == "set" and e[2] == "pool" and e[3] == "demand"]
    buffer_writes = [e for e in log if e[1] == "env" and e[2] == "buffer"]
    for entry in target_writes:
        if entry[0] not in boundaries:
            return "Buffer.run:forwards-between-boundaries", (
                "target.demand = %s at t=%s, window boundaries are %s" % (
                    entry[4], entry[0], boundaries))
    for boundary in boundaries:
        if boundary == 0 or boundary >= duration:
            continue
        before = [e[4] for e in buffer_writes if e[0] < boundary]
        coinciding = [e[4] for e in buffer_writes if e[0] == boundary]
        if not before and not coinciding:
            continue
        accepted = set(coinciding)
        accepted.add(before[-1] if before else initial)
        value = initial
        for entry in target_writes:
            if entry[0] <= boundary:
                value = entry[4]
        if value not in accepted:
            return "Buffer.run:stale-after-boundary", (
                "after the boundary t=%s target.demand is %s, the value last written to "
                "the buffer is %s" % (boundary, value, sorted(accepted)))
    return None


# ---------------------------------------------------------------------------------------
# enumeration


def times(period, duration):
    """{k*T - eps, k*T, k*T + eps} within [0, duration]"""
    out = set()
    for k in range(0, 7):
        for shift in (-EPS, 0, EPS):
            when = (k + shift) * period
            if 0 <= when <= duration * period:
                out.add(when)
    return sorted(out)


def histories(service, period, duration, depth, actions=None):
    """All action sequences up to ``depth`` with non-decreasing times"""
    slots = [(when, kind, value) for when in times(period, duration)
             for kind, value in (actions or ACTIONS[service])]
    for length in range(0, depth + 1):
        for history in itertools.product(slots, repeat=length):
            if all(a[0] <= b[0] for a, b in zip(history, history[1:])):
                yield [list(step) for step in history]


def run_case(case, choices=None):
    """Execute one case (under every batch order, or the recorded one); the first problem
    as (key, description, choices), plus the number of executions"""
    from vlib import trioclock

    duration = case["duration"] * case["period"]

    def build():
        scenario = Scenario(case)
        return scenario.service.run, scenario.actions, scenario

    executions = []
    if choices is not None:
        service_run, actions, scenario = build()
        run = trioclock.run_once(service_run, actions, duration, choices)
        executions.append((run, scenario))
    else:
        executions = trioclock.explore(build, duration)
    count, steps, problem = 0, 0, None
    for run, scenario in executions:
        count += 1
        steps += len(scenario.log)
        found = judge(case, scenario, run)
        if found and problem is None:
            problem = (found[0], found[1], list(run.taken))
    return problem, count, steps


def depth_for(duration, depth):
    """thorough: depth 3 up to 3.5 periods, depth 2 beyond"""
    return depth if duration <= 3.5 else min(depth, 2)


def shard_stall(args):
    """One stall of the event loop (time jumps, nothing runs) in an otherwise quiet run"""
    _, service, period = args
    acc = Acc()
    for init in INITS[service]:
        for at, length in itertools.product((0.5, 1.25, 2.0), (1.2, 2.2, 3.2)):
            case = {"service": service, "period": period, "duration": 7.0, "init": init,
                    "history": [[at * period, "stall", length * period]]}
            problem, executions, steps = run_case(case)
            acc.case(nontrivial_key=repr(sorted(case.items())), sample=case if at == 1.25
                     and length == 3.2 else None, n=executions)
            acc.traces += executions
            acc.transitions += steps
            acc.count("histories")
            acc.count("stall-histories")
            acc.outcome((service, "stall", problem[0] if problem else None))
            if problem:
                acc.violation(problem[0], problem[1], {"case": case, "choices": problem[2]})
    return acc


def shard(args):
    if args[0] == "stall":
        return shard_stall(args)
    service, period, duration, init, depth, part, parts = args
    acc = Acc()
    cap = actions = None
    if isinstance(init, tuple) and init[0] == "close":
        init, actions = init[1], CLOSE_WRITES
    elif isinstance(init, tuple):
        init, cap = init
        actions = CAP_ACTIONS
    for index, history in enumerate(histories(service, period, duration, depth, actions)):
        if index % parts != part:
            continue
        case = {"service": service, "period": period, "duration": duration, "init": init,
                "history": history}
        if cap is not None:
            case["cap"] = cap
        problem, executions, steps = run_case(case)
        coinciding = any(when == round(when / period) * period for when, _, _ in history)
        acc.case(nontrivial_key=repr(sorted(case.items())) if history else None,
                 sample=case if coinciding and len(history) > 1
                 and acc.evaluations % 1013 == 0 else None,
                 n=executions)
        acc.traces += executions
        acc.transitions += steps
        acc.count("histories")
        acc.count("executions-%s" % service, executions)
        if executions > 1:
            acc.count("histories-with-both-orders")
        acc.outcome((service, problem[0] if problem else None, len(history), executions))
        if problem:
            acc.violation(problem[0], problem[1], {"case": case, "choices": problem[2]})
    return acc


def run(ctx):
    depth = 2 if ctx.quick else 3
    shards = []
    for service in SERVICES:
        for period in PERIODS:
            for duration in DURATIONS:
                for init in INITS[service]:
                    use = depth_for(duration, depth)
                    parts = 1 if use < 3 or duration < 2 else (4 if duration < 3 else 8)
                    for part in range(parts):
                        shards.append((service, period, duration, init, use, part, parts))
    shards += [("stall", service, period) for service in SERVICES for period in PERIODS]
    # a Buffer and values that are almost equal
    shards += [("Buffer", period, duration, ("close", init), 2, 0, 1)
               for period in PERIODS[:2] for duration in (1.5, 2.5)
               for init in (2 ** 60, 1000.0)]
    # LinearController over a pool that limits the demand it takes on
    shards += [("LinearController", period, duration, ("up", 21.0), 2, part, 4)
               for period in PERIODS for duration in (3.5, 5.5, 7.5) for part in range(4)]
    ctx.pmap(shard, shards)
    ctx.meta.update(
        rule="service x period x run duration x initial pool state x every history of up "
             "to %d environment actions (%s) at times {k*T - T/4, k*T, k*T + T/4} <= "
             "duration in non-decreasing order (depth 2 for durations above 3.5 periods) x "
             "every batch order at instants where the environment acts while the service "
             "wakes (including the start and the final cancellation); one evaluation = one "
             "execution of the real run() under the virtual clock; a case is non-trivial "
             "when its history is not empty; distinct by the full case"
             % (depth, "; ".join("%s: %s" % (s, ACTIONS[s]) for s in SERVICES)),
        exhaustive=True,
        bounds={"history_depth": depth, "periods": PERIODS, "durations_in_periods": DURATIONS,
                "eps_in_periods": EPS, "services": SERVICES},
    )
    ctx.assumptions += [
        "a stalled event loop is modelled by a jump of the virtual clock; after it only 'never "
        "two steps at one instant / closer than an interval' and LinearController's bound over "
        "every span are required (the schedule may legitimately shift)",
        "an instant that coincides with the end of the run (the injected cancellation) may "
        "or may not see its regulation step / flush: both are accepted",
        "a regulation step is observed as: a demand write, or (dead band of "
        "LinearController) a read of the pool at that instant; a rule call (Stepwise); a "
        "sub-controller call (DemandSwitch). Steps that touch nothing are invisible",
        "FactoryPool: an adjustment is observed as any inspection of a child, demand write "
        "to a child or factory call (adjusting twice at one instant is indistinguishable "
        "from once); the pool always holds at least one child; the first adjustment is "
        "due one interval after the start, none at the start",
        "Buffer: t=0 counts as a boundary at which forwarding is allowed but not "
        "required; equality is required after every later boundary once something was "
        "written to the buffer; for writes coinciding with a boundary either order is "
        "accepted",
        "LinearController over a capped pool (the pool settles on min(written, limit); the "
        "environment moves the limit: %s): the bound is checked on what the pool settled on; "
        "DemandSwitch: every delegated regulate() call gets exactly the switch's interval"
        % (CAP_ACTIONS,),
        "LinearController bound checked on the service's own demand writes "
        "(the environment does not write demand in its scenarios); periods, eps and rates "
        "are dyadic so instants compare exactly",
    ]


def replay(data):
    problem, _, _ = run_case(data["case"], data.get("choices"))
    return "%s: %s (batch order %s)" % problem if problem else None
