"""
C15 - FactoryPool spawns and releases just enough children.

Engine: smallscope BFS + trioclock.  A real FactoryPool (constructed directly, the daemon
is not started) over recording child pools; its real ``run()`` coroutine runs in a trio
nursery under ``trio.testing.MockClock(autojump_threshold=0)``.  The harness task lives
half an interval out of phase with the service, so an *adjust* operation (the harness
sleeps one interval) lets the real loop body execute exactly once, deterministically.

Exhaustive part: breadth-first search over operation histories {write demand, set a
child's supply / utilisation, a child gives up its demand, the harness forgets a released
child (+ gc.collect()), adjust} from every scenario (initial children x factory) to the
depth bound; a state is the history, fresh real objects are built and the history is
replayed for every transition; states are deduplicated per scenario by the sorted
children's (demand, supply, utilisation, membership), the requested demand and the factory
call count.  Supplement (reported separately, never the verdict alone): seed-driven random
walks of length 30 with the same oracle.

The oracle is the property text, evaluated after every operation (aggregates, released
children) and after every adjustment (grow / shrink clauses, reaping, factory count).
"""
import gc
import random
import weakref

import trio
import trio.testing

from vlib.core import Acc

from cobald.interfaces import Pool

INTERVAL = 1.0
DEMANDS = [0, 1, 2, 3, 5, 8]
INITIAL_DEMANDS = [1, 2, 5]
FACTORIES = [[1], [2], [5, 1], [3, 2]]
WALK_LENGTH = 30
#: a factory that is called this often in one history is running away
MAX_FACTORY_CALLS = 200


class Kid(Pool):
    """Recording child pool; ``allocation`` follows ``utilisation`` but differs from it"""

    supply, utilisation = 0, 1.0

    def __init__(self, index, demand, supply):
        self.index = index
        self._demand = demand
        self.supply = supply
        self.utilisation = 1.0
        #: demands written by the owner of the child
        self.written = []

    @property
    def demand(self):
        return self._demand

    @demand.setter
    def demand(self, value):
        self.written.append(value)
        self._demand = value

    @property
    def allocation(self):
        return 0.5 + self.utilisation / 2

    def quit(self):
        """The child disables itself"""
        self._demand = 0

    def __bool__(self):
        # a pool that reports whether it has resources: false when fresh from the factory
        return self.supply > 0

    # deterministic position in the pool's sets (no dependence on object addresses)
    def __hash__(self):
        return self.index


class FactoryFault(Exception):
    """The injected environment fault: the factory cannot provide a child right now"""


class Stork:
    """The factory: children with initial demand from a cyclic list.  Holds the harness'
    strong references (``kids``); does not know the pool"""

    def __init__(self, cycle):
        self.cycle = list(cycle)
        self.kids = []
        self.refs = []
        self.calls = 0
        self.born = []
        #: calls left until the injected fault (None: no fault armed), and faults so far
        self.fault_in = None
        self.faults = 0

    def new(self, demand, supply):
        kid = Kid(len(self.kids), demand, supply)
        self.kids.append(kid)
        self.refs.append(weakref.ref(kid))
        return kid

    def __call__(self):
        if self.calls >= MAX_FACTORY_CALLS:
            raise RuntimeError("factory called more than %d times" % MAX_FACTORY_CALLS)
        if self.fault_in is not None:
            self.fault_in -= 1
            if self.fault_in <= 0:
                self.fault_in = None
                self.faults += 1
                raise FactoryFault("no child available")
        demand = self.cycle[self.calls % len(self.cycle)]
        self.calls += 1
        kid = self.new(demand, 0)
        self.born.append(kid.index)
        return kid


class Obs:
    """What the harness sees of the pool's children, by creation index"""

    __slots__ = ("active", "released", "foreign", "duplicates", "fields", "private")

    def members(self):
        return self.active + self.released


class World:
    def __init__(self, scenario):
        from cobald.composite.factory import FactoryPool

        self.demands = scenario.get("demands", DEMANDS)
        self.stork = Stork(scenario["factory"])
        first = [self.stork.new(demand, demand) for demand in scenario["initial"]]
        self.pool = FactoryPool(*first, factory=self.stork, interval=INTERVAL)
        del first
        self.crash = None
        self.written = None
        self.was_released = set()
        #: did the last adjustment spawn or release a child
        self.moved = False

    async def serve(self):
        try:
            await self.pool.run()
        except Exception as err:  # noqa: B902 - reported by the next adjust
            self.crash = err

    # -- observation ---------------------------------------------------------------
    def observe(self):
        index = {}
        for number, ref in enumerate(self.stork.refs):
            kid = ref()
            if kid is not None:
                index[id(kid)] = number
        kid = None
        obs = Obs()
        pool = self.pool
        public = [index.get(id(child), -1) for child in pool.children]
        obs.foreign = public.count(-1)
        public = [number for number in public if number >= 0]
        obs.duplicates = len(set(public)) != len(public)
        try:
            active = [index.get(id(child), -1) for child in pool._hatchery]
            released = [index.get(id(child), -1) for child in pool._mortuary]
            obs.private = True
        except AttributeError:
            # public view only: a child is released once its owner wrote demand 0 to it
            obs.private = False
            active, released = [], []
            for number in sorted(set(public)):
                disabled = any(value <= 0 for value in self.stork.refs[number]().written)
                (released if disabled else active).append(number)
        obs.foreign += active.count(-1) + released.count(-1)
        obs.active = sorted(number for number in active if number >= 0)
        obs.released = sorted(number for number in released if number >= 0)
        obs.fields = {}
        for number in index.values():
            kid = self.stork.refs[number]()
            obs.fields[number] = (kid.demand, kid.supply, kid.utilisation)
            if any(value <= 0 for value in kid.written):
                # its owner wrote demand 0 to it: released, whatever the pool lists
                self.was_released.add(number)
        kid = None
        self.was_released.update(obs.released)
        return obs

    def canon(self, obs):
        kids = []
        for number, fields in obs.fields.items():
            if number in obs.active:
                member = "active+released" if number in obs.released else "active"
            elif number in obs.released:
                member = "released" if self.stork.kids[number] is not None else "released*"
            else:
                member = "outside"
            kids.append(fields + (member,))
        return (tuple(sorted(kids)), self.pool.demand, self.stork.calls,
                self.stork.fault_in, self.crash is not None)

    def operations(self, obs):
        """The operations possible now; of children that agree in every field only the
        oldest is operated on (they are interchangeable)"""
        if self.crash is not None:
            # the service ended (loudly) with the injected fault: nothing adjusts any more
            return []
        ops = [("adjust",)]
        if self.stork.fault_in is None and self.stork.faults == 0:
            # one environment fault per history: the factory raises at its 1st / 2nd call
            ops += [("fault", 1), ("fault", 2)]
        requested = self.pool.demand
        ops += [("write", demand) for demand in self.demands if demand != requested]
        classes = set()
        for number in sorted(obs.fields):
            if self.stork.kids[number] is None:
                continue
            member = ("active" if number in obs.active
                      else "released" if number in obs.released
                      or number in self.was_released else None)
            if member is None or (obs.fields[number], member) in classes:
                continue
            classes.add((obs.fields[number], member))
            demand, supply, utilisation = obs.fields[number]
            if supply != 0:
                ops.append(("supply", number, "zero"))
            if supply != demand:
                ops.append(("supply", number, "demand"))
            if member == "released" and supply == 0:
                # resources requested before the release arrive late (and drain afterwards)
                ops.append(("supply", number, "one"))
            for value in (0, 1):
                if utilisation != value:
                    ops.append(("util", number, value))
            if member == "active" and demand > 0:
                ops.append(("quit", number))
            if member == "released":
                ops.append(("drop", number))
        return ops

    # -- operations ----------------------------------------------------------------
    async def apply(self, op):
        what = op[0]
        if what == "adjust":
            await trio.sleep(INTERVAL)
        elif what == "fault":
            self.stork.fault_in = op[1]
        elif what == "write":
            self.pool.demand = op[1]
            self.written = op[1]
        elif what == "supply":
            kid = self.stork.kids[op[1]]
            kid.supply = {"demand": kid.demand, "zero": 0, "one": 1}[op[2]]
        elif what == "util":
            self.stork.kids[op[1]].utilisation = op[2]
        elif what == "quit":
            self.stork.kids[op[1]].quit()
        elif what == "drop":
            self.stork.kids[op[1]] = None
            gc.collect()
        else:
            raise ValueError(op)

    async def step(self, op):
        """Apply one operation and evaluate the oracle: (problems, observation)"""
        adjust = op[0] == "adjust"
        problems = []
        if adjust:
            before = self.observe()
            requested = self.written if self.written is not None else self.pool.demand
            born = len(self.stork.born)
        try:
            await self.apply(op)
        except Exception as err:  # noqa: B902
            problems.append(("op-raised:%s:%s" % (op[0], type(err).__name__),
                             "%r raised %s: %s" % (op, type(err).__name__, err)))
        try:
            after = self.observe()
        except Exception as err:  # noqa: B902
            problems.append(("observe-raised:%s" % type(err).__name__,
                             "reading the children raised %s: %s" % (
                                 type(err).__name__, err)))
            return problems, None
        if adjust:
            if isinstance(self.crash, FactoryFault):
                # the adjustment failed loudly with the factory's own error: allowed; what
                # is not allowed is an adjustment that completes without covering the demand
                pass
            elif self.crash is not None:
                problems.append((
                    "adjust-raised:%s" % type(self.crash).__name__,
                    "run() ended with %s: %s" % (type(self.crash).__name__, self.crash)))
            else:
                problems += check_adjust(before, after, requested, self.stork.born[born:])
            self.moved = before.active != after.active
        problems += self.check_always(after)
        return problems, after

    # -- oracle: every state -------------------------------------------------------
    def check_always(self, obs):
        problems = []
        fields = obs.fields
        if obs.foreign:
            problems.append(("factory:foreign-child",
                             "%d children that neither the constructor nor the factory "
                             "provided" % obs.foreign))
        both = sorted(set(obs.active) & set(obs.released))
        if both or obs.duplicates:
            problems.append(("membership:active-and-released",
                             "children %r are active and released at once" % both))
        again = sorted(self.was_released & set(obs.active))
        if again and not both:
            problems.append(("released:active-again",
                             "children %r were released and are active again" % again))
        alive = [number for number in obs.released if fields[number][0] != 0]
        if alive:
            problems.append(("released:demand-not-zero", "released children %r have demand %r"
                             % (alive, [fields[number][0] for number in alive])))
        # "all children": what the pool lists, and every released child that still exists
        members = sorted(set(obs.members()) | (self.was_released & set(fields)))
        pool = self.pool
        try:
            want = sum(fields[number][1] for number in members)
            if pool.supply != want:
                problems.append(("aggregate:supply", "supply %r, children's supplies sum to "
                                 "%r" % (pool.supply, want)))
            supplying = [number for number in members if fields[number][1] > 0]
            for attr, value in (
                ("utilisation", lambda number: fields[number][2]),
                ("allocation", lambda number: 0.5 + fields[number][2] / 2),
            ):
                want = (sum(value(number) for number in supplying) / len(supplying)
                        if supplying else 1.0)
                got = getattr(pool, attr)
                if not abs(got - want) <= 1e-12:
                    problems.append((
                        "aggregate:" + attr, "%s %r, mean over the children with supply is "
                        "%r" % (attr, got, want)))
        except Exception as err:  # noqa: B902
            problems.append(("aggregate-raised:%s" % type(err).__name__,
                             "reading the pool raised %s: %s" % (type(err).__name__, err)))
        return problems


def check_adjust(before, after, requested, born):
    """The clauses about one adjustment (property statement, sentence by sentence)"""
    problems = []
    demand = {number: fields[0] for number, fields in after.fields.items()}
    active = [number for number in after.active if number not in after.released]
    covered = sum(demand[number] for number in active)
    supply = sum(before.fields[number][1] for number in set(before.members()))
    if supply <= requested:
        # "when it grows, the active children's demands cover the requested demand and
        # would not without the child spawned last"
        if covered < requested:
            problems.append(("grow:not-covered", "grew, but the active demand %r does not "
                             "cover the request %r" % (covered, requested)))
        if born:
            without = sum(demand[number] for number in active if number != born[-1])
            if without >= requested:
                problems.append((
                    "grow:one-too-many", "spawned %d children; without the last one the "
                    "active demand %r already covers the request %r"
                    % (len(born), without, requested)))
    else:
        # "when it shrinks, a child is released only if the remaining active demand still
        # covers the request, and no child that could still be released that way is kept"
        let_go = [number for number in before.active
                  if number not in active and before.fields[number][0] > 0]
        if let_go and covered < requested:
            problems.append((
                "shrink:released-too-much", "released children %r (demands %r); the "
                "remaining active demand %r does not cover the request %r"
                % (let_go, [before.fields[n][0] for n in let_go], covered, requested)))
        kept = [number for number in active if 0 < demand[number] <= covered - requested]
        if kept:
            problems.append((
                "shrink:kept-releasable", "active demand %r, request %r: children %r "
                "(demands %r) could still be released" % (
                    covered, requested, kept, [demand[n] for n in kept])))
    # "children with no demand left are released"
    idle = [number for number in active if demand[number] <= 0]
    if idle:
        problems.append(("reap:no-demand-but-active",
                         "children %r have no demand left and are still active" % idle))
    # "children are only ever created by the factory"
    new = sorted(set(after.members()) - set(before.members()))
    if new != sorted(born):
        problems.append(("factory:count-mismatch", "the factory produced %r during the "
                         "adjustment, new children are %r" % (sorted(born), new)))
    return problems


# ---------------------------------------------------------------------------------------
# running histories inside one trio.run per shard


async def run_history(scenario, history, final=None):
    """Build fresh objects, replay ``history`` (observing only), then apply ``final`` with
    the oracle.  Returns (problems, world, observation)"""
    world = World(scenario)
    problems, obs = [], None
    async with trio.open_nursery() as nursery:
        nursery.start_soon(world.serve)
        await trio.sleep(INTERVAL / 2)
        try:
            for op in history:
                await world.apply(op)
                world.observe()
            if final is None:
                obs = world.observe()
                problems = world.check_always(obs)
            else:
                problems, obs = await world.step(final)
        finally:
            nursery.cancel_scope.cancel()
    return problems, world, obs


async def check_history(scenario, ops):
    """Replay with the oracle after every operation (replay files, random walks):
    (problems, index of the failing operation) or None"""
    world = World(scenario)
    found = None
    async with trio.open_nursery() as nursery:
        nursery.start_soon(world.serve)
        await trio.sleep(INTERVAL / 2)
        try:
            problems = world.check_always(world.observe())
            if problems:
                found = (problems, -1)
            else:
                for index, op in enumerate(ops):
                    problems, _obs = await world.step(tuple(op))
                    if problems:
                        found = (problems, index)
                        break
        finally:
            nursery.cancel_scope.cancel()
    return found


def report(acc, scenario, ops, problems, mode):
    for key, what in problems:
        acc.violation(key, what, {"scenario": scenario, "ops": [list(op) for op in ops],
                                  "found_by": mode})


async def explore(acc, scenario, depth, seen, frontier, following):
    problems, world, obs = await run_history(scenario, ())
    acc.case()
    if problems or obs is None:
        report(acc, scenario, [], problems, "bfs")
        return 0
    seen.add(world.canon(obs))
    frontier.append(((), world.operations(obs)))
    transitions = 0
    deepest = 0
    for level in range(1, depth + 1):
        failed = False
        for history, ops in frontier:
            for op in ops:
                problems, world, obs = await run_history(scenario, history, op)
                transitions += 1
                if transitions % 256 == 0:
                    # keep the collector's working set small: gc.collect() is an operation
                    quiet_gc()
                if problems or obs is None:
                    failed = True
                    acc.case()
                    acc.outcome(tuple(key for key, _ in problems))
                    report(acc, scenario, history + (op,), problems, "bfs")
                    continue
                state = world.canon(obs)
                moved = op[0] == "adjust" and world.moved
                acc.case(
                    nontrivial_key=(scenario["initial"], scenario["factory"], state, op)
                    if moved else None,
                    sample=({"scenario": scenario, "ops": history + (op,)}
                            if moved and level >= 3 and not acc.samples else None))
                if state not in seen:
                    seen.add(state)
                    acc.outcome(state[0])
                    if level < depth:
                        following.append((history + (op,), world.operations(obs)))
        deepest = level
        if failed:
            acc.count("bfs:scenarios-stopped-at-first-counterexample")
            break
        frontier[:] = following
        del following[:]
    acc.count("bfs:depth-%d-scenarios" % deepest)
    return transitions


async def walk(acc, scenario, rng):
    """One random walk, the oracle after every operation; returns the number of steps"""
    world = World(scenario)
    steps = 0
    ops = []
    failed = None
    async with trio.open_nursery() as nursery:
        nursery.start_soon(world.serve)
        await trio.sleep(INTERVAL / 2)
        try:
            obs = world.observe()
            for _ in range(WALK_LENGTH):
                possible = world.operations(obs)
                if not possible:
                    break
                op = rng.choice(possible)
                ops.append(op)
                problems, obs = await world.step(op)
                steps += 1
                if problems or obs is None:
                    failed = problems
                    break
        finally:
            nursery.cancel_scope.cancel()
    acc.outcome(("walk", len(world.stork.kids), world.stork.calls))
    if failed:
        acc.count("walks:violating")
        for key, what in failed:
            shorter, now = await shrink(scenario, ops, key)
            report(acc, scenario, shorter, [(key, now or what)], "walk")
    return steps


async def shrink(scenario, ops, key):
    """Drop operations of a random walk as long as the same clause still breaks"""
    what = None
    if key.startswith("op-raised"):
        return ops, what
    changed = True
    while changed:
        changed = False
        for skip in range(len(ops) - 1, -1, -1):
            trial = ops[:skip] + ops[skip + 1:]
            found = await check_history(scenario, trial)
            if found is None or any(k.startswith("op-raised") for k, _ in found[0]):
                continue
            same = [text for k, text in found[0] if k == key]
            if same:
                ops, what, changed = trial[:found[1] + 1], same[0], True
                break
    return ops, what


def quiet_gc():
    gc.disable()
    gc.collect()
    gc.freeze()


def shard_bfs(args):
    scenario, depth = args
    acc = Acc()
    seen, frontier, following = set(), [], []
    quiet_gc()
    box = []

    async def main():
        box.append(await explore(acc, scenario, depth, seen, frontier, following))

    trio.run(main, clock=trio.testing.MockClock(autojump_threshold=0))
    acc.states, acc.transitions = len(seen), box[0]
    acc.count("bfs:states", len(seen))
    acc.count("bfs:transitions", box[0])
    return acc


def shard_walks(args):
    scenario, number, walks, seed = args
    acc = Acc()
    quiet_gc()

    async def main():
        for index in range(walks):
            rng = random.Random(seed * 1000003 + number * 10007 + index)
            steps = await walk(acc, scenario, rng)
            acc.count("walks:walks")
            acc.count("walks:steps", steps)

    trio.run(main, clock=trio.testing.MockClock(autojump_threshold=0))
    return acc


def shard(args):
    return {"bfs": shard_bfs, "walks": shard_walks}[args[0]](args[1:])


# ---------------------------------------------------------------------------------------


def scenarios():
    initials = [[]] + [[a] for a in INITIAL_DEMANDS] + [
        [a, b] for a in INITIAL_DEMANDS for b in INITIAL_DEMANDS]
    out = [{"initial": initial, "factory": factory}
           for initial in initials for factory in FACTORIES]
    # large demands: a child that misses fitting by one part in 10**9 does not fit
    big = 10 ** 9
    for count in (2, 3):
        out.append({"initial": [big] * count, "factory": [big],
                    "demands": [0, big, 2 * big, 2 * big + 1, 3 * big - 1, 3 * big,
                                2 * big + 0.5]})
    return out


def run(ctx):
    depth = 5 if ctx.quick else 7
    walks = 40 if ctx.quick else 400
    every = scenarios()
    # the exhaustive part first: its counterexamples are the shortest of their scenario
    ctx.pmap(shard, [("bfs", scenario, depth) for scenario in every])
    ctx.pmap(shard, [("walks", scenario, number, walks, ctx.seed)
                     for number, scenario in enumerate(every)])
    counters = ctx.acc.counters
    ctx.meta.update(
        rule="BFS over histories of {write D in %r, child supply := 0 | its demand (a released "
             "child without supply: := 1, resources arriving late), child "
             "utilisation := 0 | 1, child gives up its demand, harness forgets a released "
             "child + gc.collect(), one environment fault per history: the factory raises at its 1st / 2nd call from now (the adjustment may then fail loudly, it may not complete short of the demand), adjust = one cycle of the real run() under a mock clock} "
             "to depth %d from every scenario (initial children: none, one, an ordered pair "
             "with demand in %r and supply = demand; factory demands cycling through one of "
             "%r); among children equal in every field only the oldest is operated on; "
             "states deduplicated per scenario by (sorted children (demand, supply, "
             "utilisation, membership), requested demand, factory calls); a transition is "
             "non-trivial when it is an adjustment after which a child has been spawned or "
             "released, distinct by (scenario, resulting state, operation).  Supplement: %d "
             "random walks of length %d per scenario, seeded by VERIF_SEED"
             % (DEMANDS, depth, INITIAL_DEMANDS, FACTORIES, walks, WALK_LENGTH),
        exhaustive=True,
        bounds={"depth": depth, "demands": DEMANDS, "initial_demands": INITIAL_DEMANDS,
                "factories": FACTORIES, "scenarios": len(every), "interval": INTERVAL},
        parts={
            "bfs": {"states": counters.get("bfs:states", 0),
                    "transitions": counters.get("bfs:transitions", 0)},
            "random_walks": {"walks": counters.get("walks:walks", 0),
                             "steps": counters.get("walks:steps", 0),
                             "violating": counters.get("walks:violating", 0),
                             "seed": ctx.seed, "exhaustive": False},
        },
    )
    ctx.acc.states = counters.get("bfs:states", 0)
    ctx.acc.transitions = counters.get("bfs:transitions", 0) + counters.get("walks:steps", 0)
    ctx.assumptions += [
        "one adjustment = one pass of the body of the real run() loop (virtual clock, the "
        "harness half an interval out of phase); nothing else runs concurrently with it",
        "'it grows' / 'it shrinks' is decided as documented: the pool's supply (sum over "
        "all its children) <= / > the requested demand when the adjustment starts; the "
        "requested demand is the last one written (the pool's own reading before any write)",
        "'a child that could still be released that way' = an active child whose positive "
        "demand is at most (sum of the active demands - requested demand) after the "
        "adjustment; the documented preference order (supply * utilisation) is not part of "
        "the oracle, and ties in it are left to the pool",
        "children never raise their demand again after it has been set to 0, demands and "
        "supplies are non-negative integers; allocation of a child is 0.5 + utilisation / 2",
        "membership is read from _hatchery / _mortuary (read-only; without them a child "
        "counts as released once the pool wrote demand 0 to it) and from the public children",
        "children are hashed by their creation index, so the order of the pool's internal "
        "sets is reproducible; only one order of ties is explored per state",
        "random walks are a supplement: they are not exhaustive and depend on the seed",
    ]


def replay(data):
    box = []

    async def main():
        box.append(await check_history(data["scenario"], data["ops"]))

    trio.run(main, clock=trio.testing.MockClock(autojump_threshold=0))
    if box[0] is None:
        return None
    problems, index = box[0]
    return "after operation %d: %s" % (index, "; ".join(
        "%s: %s" % problem for problem in problems))
