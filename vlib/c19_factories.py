"""
Factories for the C19 check (nested ``__type__`` translation), importable by dotted name.

Every factory that can be called appends ``(kind, ident, args, kwargs)`` to ``LOG`` - the
global call log - before it does anything else.  There is one family member per ``ident``
(0..COUNT-1), so that a call can be attributed to the one mapping that names it:

``vlib.c19_factories.RecClass<i>``          a recording class (kind "cls")
``vlib.c19_factories.rec_function_<i>``     a recording function (kind "fn")
``vlib.c19_factories.Holder.Inner.make_<i>`` a nested attribute of the module: a static
                                            method of a class nested in a class ("attr")
``vlib.c19_factories.raising_<i>``          records the call, then raises ("raise")

Names that must stay undefined: ``vlib.c19_factories.missing_<i>``.
"""

COUNT = 8

#: the global call log: (kind, ident, args tuple, kwargs dict) in call order
LOG = []


class FactoryFailure(Exception):
    """What the raising factories raise"""


class Built:
    """Value produced by a recording factory: remembers what it was made from"""

    __slots__ = ("kind", "ident", "args", "kwargs")

    def __init__(self, kind, ident, args, kwargs):
        self.kind, self.ident, self.args, self.kwargs = kind, ident, args, kwargs

    def __repr__(self):
        return "Built(%r, %r, *%r, **%r)" % (self.kind, self.ident, self.args, self.kwargs)


class Holder:
    class Inner:
        pass


def _make_class(ident):
    class RecClass(Built):
        __slots__ = ()

        def __init__(self, *args, **kwargs):
            LOG.append(("cls", ident, args, kwargs))
            Built.__init__(self, "cls", ident, args, kwargs)

    RecClass.__name__ = RecClass.__qualname__ = "RecClass%d" % ident
    return RecClass


def _make_function(kind, ident):
    def rec_function(*args, **kwargs):
        LOG.append((kind, ident, args, kwargs))
        return Built(kind, ident, args, kwargs)

    return rec_function


def _make_raising(ident):
    def raising(*args, **kwargs):
        LOG.append(("raise", ident, args, kwargs))
        raise FactoryFailure("factory %d fails" % ident)

    return raising


import contextlib  # noqa: E402


_REBINDINGS = None


@contextlib.contextmanager
def rebound():
    """Bind the names of all callable recording factories to other callables (their calls are
    logged with the kind "re-<kind>"); the previous bindings come back afterwards"""
    global _REBINDINGS
    if _REBINDINGS is None:
        _REBINDINGS = [
            (owner, name, _make_function("re-" + kind, ident))
            for ident in range(COUNT)
            for owner, name, kind in ((None, "RecClass%d" % ident, "cls"),
                                      (None, "rec_function_%d" % ident, "fn"),
                                      (Holder.Inner, "make_%d" % ident, "attr"))]
    saved = []
    for owner, name, new in _REBINDINGS:
        if owner is None:
            saved.append((owner, name, globals()[name]))
            globals()[name] = new
        else:
            saved.append((owner, name, owner.__dict__[name]))
            setattr(owner, name, staticmethod(new))
    try:
        yield
    finally:
        for owner, name, old in saved:
            if owner is None:
                globals()[name] = old
            else:
                setattr(owner, name, old)


for _ident in range(COUNT):
    globals()["RecClass%d" % _ident] = _make_class(_ident)
    globals()["rec_function_%d" % _ident] = _make_function("fn", _ident)
    globals()["raising_%d" % _ident] = _make_raising(_ident)
    setattr(Holder.Inner, "make_%d" % _ident, staticmethod(_make_function("attr", _ident)))
del _ident
