"""
Common machinery of every check: accumulators, sharding, evidence, known findings,
violation / replay reporting.

A check module (``checks/cNN.py``) provides

``run(ctx) -> None``
    explore, call ``ctx.acc`` methods / ``ctx.pmap`` and set ``ctx.meta``.
``replay(data) -> Optional[str]``
    re-run one recorded case without the explorer; returns a description of the
    violation when it reproduces, ``None`` otherwise.
``classify(violation) -> key``  (optional; violations already carry keys)

Exit status contract (see MANIFEST.json): 0 = property held on everything explored (or
only listed known findings were seen), 1 = at least one VIOLATION line, 2 = infrastructure
error (never a verdict).
"""
from __future__ import annotations

import hashlib
import json
import multiprocessing
import os
import random
import subprocess
import sys
import time
import traceback
from typing import Any, Callable, Dict, Iterable, List, Optional

VERIF = os.path.dirname(os.path.dirname(os.path.abspath(__file__)))
REPO = os.environ.get("VERIF_REPO", "/repo")
# evidence describes /repo; runs against another tree (seeded changes) keep theirs apart
EVIDENCE_DIR = os.path.join(VERIF, "evidence" if os.path.realpath(REPO) == "/repo"
                            else "evidence.other")
REPLAY_DIR = os.path.join(VERIF, "replays" if os.path.realpath(REPO) == "/repo"
                          else "replays.other")
KNOWN_FINDINGS = os.path.join(VERIF, "known_findings.json")
EVIDENCE_SCHEMA = "/root/.vp/EVIDENCE.schema.json"

MAX_SAMPLES = 6
MAX_VIOLATIONS_KEPT = 40


def digest(obj: Any, n: int = 8) -> bytes:
    """Stable short digest of a repr-able object (for distinct counting)"""
    if not isinstance(obj, (bytes, str)):
        obj = repr(obj)
    if isinstance(obj, str):
        obj = obj.encode("utf-8", "backslashreplace")
    return hashlib.blake2b(obj, digest_size=n).digest()


def jsonable(obj: Any, depth: int = 0) -> Any:
    """Best-effort conversion of a case description to JSON"""
    if depth > 12:
        return repr(obj)
    if obj is None or isinstance(obj, (bool, int, str)):
        return obj
    if isinstance(obj, float):
        if obj != obj or obj in (float("inf"), float("-inf")):
            return repr(obj)
        return obj
    if isinstance(obj, (list, tuple)):
        return [jsonable(o, depth + 1) for o in obj]
    if isinstance(obj, (set, frozenset)):
        return sorted((jsonable(o, depth + 1) for o in obj), key=repr)
    if isinstance(obj, dict):
        return {
            (k if isinstance(k, str) else repr(k)): jsonable(v, depth + 1)
            for k, v in obj.items()
        }
    return repr(obj)


class Acc:
    """Mergeable accumulator of what one shard explored"""

    __slots__ = (
        "evaluations",
        "states",
        "transitions",
        "traces",
        "nontrivial",
        "state_set",
        "samples",
        "violations",
        "violation_count",
        "counters",
        "outcomes",
        "nontrivial_count",
    )

    def __init__(self):
        self.evaluations = 0
        self.states = 0
        self.transitions = 0
        self.traces = 0
        self.nontrivial = set()
        self.state_set = set()
        self.samples: List[Any] = []
        self.violations: List[dict] = []
        self.violation_count = 0
        self.counters: Dict[str, int] = {}
        self.outcomes = set()
        #: distinct non-trivial cases counted by the engine itself (distinct by construction)
        self.nontrivial_count = 0

    # -- recording -----------------------------------------------------------------
    def case(self, nontrivial_key: Any = None, sample: Any = None, n: int = 1):
        """One evaluated case; ``nontrivial_key`` (if not None) identifies it as a
        distinct non-trivial case"""
        self.evaluations += n
        if nontrivial_key is not None:
            self.nontrivial.add(digest(nontrivial_key))
        if sample is not None and len(self.samples) < MAX_SAMPLES:
            self.samples.append(jsonable(sample))

    def state(self, key: Any) -> bool:
        """Record an abstract state; returns True if it is new (in this shard)"""
        d = digest(key)
        if d in self.state_set:
            return False
        self.state_set.add(d)
        return True

    def outcome(self, key: Any):
        self.outcomes.add(digest(key))

    def count(self, name: str, n: int = 1):
        self.counters[name] = self.counters.get(name, 0) + n

    def violation(self, key: str, what: str, replay: Any):
        self.violation_count += 1
        self.count("violation:" + key)
        if sum(1 for v in self.violations if v["key"] == key) < 3:
            self.violations.append(
                {"key": key, "what": what, "replay": jsonable(replay)}
            )

    # -- merging -------------------------------------------------------------------
    def merge(self, other: "Acc"):
        self.evaluations += other.evaluations
        self.states += other.states
        self.transitions += other.transitions
        self.traces += other.traces
        self.nontrivial |= other.nontrivial
        self.state_set |= other.state_set
        self.outcomes |= other.outcomes
        self.nontrivial_count += other.nontrivial_count
        for s in other.samples:
            if len(self.samples) < MAX_SAMPLES:
                self.samples.append(s)
        self.violation_count += other.violation_count
        for v in other.violations:
            if sum(1 for w in self.violations if w["key"] == v["key"]) < 3:
                self.violations.append(v)
        for k, n in other.counters.items():
            self.counters[k] = self.counters.get(k, 0) + n
        return self


def _run_shard(packed):
    fn, item = packed
    try:
        return ("ok", fn(item))
    except BaseException:  # noqa: B036 - reported as infrastructure error by the parent
        return ("err", "shard %r failed:\n%s" % (item, traceback.format_exc()))


class InfrastructureError(Exception):
    """The harness itself failed; never a verdict about the property"""


class Ctx:
    def __init__(self, prop: str, tier: str, seed: int, procs: int):
        self.prop = prop
        self.tier = tier
        self.seed = seed
        self.procs = procs
        self.acc = Acc()
        #: free-form information for the evidence file, set by the check
        self.meta: Dict[str, Any] = {}
        self.assumptions: List[str] = []
        self.rng = random.Random(seed)
        self.t0 = time.time()

    @property
    def quick(self) -> bool:
        return self.tier == "quick"

    def pmap(
        self,
        fn: Callable[[Any], Acc],
        items: Iterable[Any],
        chunksize: int = 1,
        context: str = "fork",
        maxtasksperchild: Optional[int] = None,
        cost: Optional[Callable[[Any], float]] = None,
    ):
        """Run ``fn`` over all ``items`` (shards) on all cores and merge the results.

        The shard order is permuted by the seed; the verdict must not depend on it."""
        items = list(items)
        self.rng.shuffle(items)
        if cost is not None:
            # expensive shards first (better packing); the seed still permutes equal costs
            items.sort(key=cost, reverse=True)
        if self.procs <= 1 or len(items) <= 1:
            for item in items:
                status, res = _run_shard((fn, item))
                if status == "err":
                    raise InfrastructureError(res)
                self.acc.merge(res)
            return
        mp = multiprocessing.get_context(context)
        with mp.Pool(
            min(self.procs, len(items)), maxtasksperchild=maxtasksperchild
        ) as pool:
            for status, res in pool.imap_unordered(
                _run_shard, [(fn, item) for item in items], chunksize
            ):
                if status == "err":
                    pool.terminate()
                    raise InfrastructureError(res)
                self.acc.merge(res)


# ---------------------------------------------------------------------------------------
# known findings


def load_known_findings(prop: str) -> Dict[str, dict]:
    try:
        with open(KNOWN_FINDINGS) as stream:
            data = json.load(stream)
    except FileNotFoundError:
        return {}
    return {
        entry["key"]: entry
        for entry in data.get("findings", [])
        if entry.get("property") == prop and entry.get("status") == "known"
    }


# ---------------------------------------------------------------------------------------
# evidence


def write_evidence(ctx: Ctx, violations: int, wall: float) -> str:
    acc = ctx.acc
    states = acc.states or len(acc.state_set) or len(acc.nontrivial)
    coverage = {
        "states": states,
        "transitions": acc.transitions or acc.evaluations,
        "traces_validated_against_impl": acc.traces or acc.evaluations,
        "samples": acc.samples or ["<none>"],
        "evaluations": acc.evaluations,
        "distinct_nontrivial": len(acc.nontrivial) + acc.nontrivial_count,
        "distinct_outcomes": len(acc.outcomes),
        "rule": ctx.meta.get("rule", ""),
        "exhaustive": bool(ctx.meta.get("exhaustive", False)),
        "bounds": jsonable(ctx.meta.get("bounds", {})),
        "caps_hit": jsonable(ctx.meta.get("caps_hit", [])),
        "counters": dict(sorted(acc.counters.items())),
    }
    for key, value in ctx.meta.items():
        if key not in coverage and key not in ("rule", "exhaustive", "bounds"):
            coverage[key] = jsonable(value)
    evidence = {
        "property_id": ctx.prop,
        "tier": ctx.tier,
        "seed": ctx.seed,
        "level": "model_checking",
        "coverage": coverage,
        "assumptions": ctx.assumptions,
        "wall_s": round(wall, 3),
        "violations": violations,
    }
    os.makedirs(EVIDENCE_DIR, exist_ok=True)
    path = os.path.join(EVIDENCE_DIR, "%s.json" % ctx.prop)
    tmp = path + ".tmp.%d" % os.getpid()
    with open(tmp, "w") as stream:
        json.dump(evidence, stream, indent=1, sort_keys=False)
        stream.write("\n")
    os.replace(tmp, path)
    return path


def validate_evidence(path: str) -> Optional[str]:
    """Validate against the schema with the tooling venv, if both are available"""
    if not os.path.exists(EVIDENCE_SCHEMA):
        return None
    code = (
        "import json,sys,jsonschema;"
        "jsonschema.validate(json.load(open(sys.argv[1])),json.load(open(sys.argv[2])))"
    )
    try:
        proc = subprocess.run(
            ["python3-vt", "-c", code, path, EVIDENCE_SCHEMA],
            capture_output=True,
            text=True,
            timeout=60,
        )
    except (OSError, subprocess.TimeoutExpired):
        return None
    if proc.returncode != 0:
        return proc.stderr.strip().splitlines()[-1] if proc.stderr.strip() else "invalid"
    return None


# ---------------------------------------------------------------------------------------
# reporting


def write_replay(prop: str, violation: dict) -> str:
    directory = os.path.join(REPLAY_DIR, prop)
    os.makedirs(directory, exist_ok=True)
    name = digest(violation["key"] + repr(violation["replay"]), 6).hex()
    path = os.path.join(directory, "%s.json" % name)
    with open(path, "w") as stream:
        json.dump(
            {
                "property": prop,
                "key": violation["key"],
                "what": violation["what"],
                "replay": violation["replay"],
                "how": "./check %s --replay %s" % (prop, path),
            },
            stream,
            indent=1,
        )
        stream.write("\n")
    test = os.path.join(directory, "test_replay_%s.py" % name)
    with open(test, "w") as stream:
        stream.write(
            '"""Replays one recorded counterexample of %s without the explorer: fails while the '
            'property is broken"""\n'
            "import subprocess\n\n\n"
            "def test_replay():\n"
            "    done = subprocess.run([%r, %r, '--replay', %r], capture_output=True, text=True)\n"
            "    assert done.returncode == 0, done.stdout[-2000:]\n\n\n"
            "if __name__ == '__main__':\n"
            "    test_replay()\n" % (prop, os.path.join(VERIF, "check"), prop, path))
    return path


def finish(ctx: Ctx) -> int:
    """Evidence + KNOWN-FINDING / VIOLATION lines; returns the exit status"""
    wall = time.time() - ctx.t0
    known = load_known_findings(ctx.prop)
    by_key: Dict[str, List[dict]] = {}
    for violation in ctx.acc.violations:
        by_key.setdefault(violation["key"], []).append(violation)
    unknown = {key: vs for key, vs in by_key.items() if key not in known}
    path = write_evidence(ctx, violations=len(unknown), wall=wall)
    problem = validate_evidence(path)
    if problem:
        print("INFRASTRUCTURE: evidence file does not validate: %s" % problem)
        return 2
    acc = ctx.acc
    print(
        "%s tier=%s seed=%d evaluations=%d states=%d transitions=%d nontrivial=%d "
        "outcomes=%d wall=%.1fs"
        % (
            ctx.prop,
            ctx.tier,
            ctx.seed,
            acc.evaluations,
            acc.states or len(acc.state_set) or len(acc.nontrivial),
            acc.transitions or acc.evaluations,
            len(acc.nontrivial) + acc.nontrivial_count,
            len(acc.outcomes),
            wall,
        )
    )
    for key in sorted(by_key):
        if key in known:
            n = acc.counters.get("violation:" + key, len(by_key[key]))
            print(
                "KNOWN-FINDING: property=%s %s [%s; %d cases this run]"
                % (ctx.prop, known[key].get("what", key), key, n)
            )
    status = 0
    for key in sorted(unknown):
        violation = min(unknown[key], key=lambda v: (len(repr(v["replay"])), repr(v["replay"])))
        replay = write_replay(ctx.prop, violation)
        print("  key=%s: %s" % (key, violation["what"]))
        print("VIOLATION property=%s replay=%s" % (ctx.prop, replay))
        status = 1
    return status
