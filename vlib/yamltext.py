"""
A deliberately small YAML *text* writer for generated configuration documents (C05, C18).

Documents are described as trees of :class:`Node` and written out by hand, so that the text
fed to the loader under test does not come from PyYAML's own emitter/representer.  Every
node may carry a tag (written verbatim in front of the node, e.g. ``!VPoolL`` or
``!!python/tuple``) and is written in block style unless ``flow`` is set.

``py(value)`` converts plain data (int, str, list, dict with identifier keys) to nodes.
"""
import json
import re

_PLAIN_KEY = re.compile(r"^[A-Za-z_][A-Za-z_0-9.]*$")


class Node(object):
    __slots__ = ("kind", "value", "tag", "flow")

    def __init__(self, kind, value, tag=None, flow=False):
        assert kind in ("scalar", "seq", "map")
        self.kind = kind
        self.value = value
        self.tag = tag
        self.flow = flow


def scalar(text="", tag=None):
    """A scalar whose YAML text is ``text`` verbatim (empty: nothing is written)"""
    return Node("scalar", text, tag)


def seq(items, tag=None, flow=False):
    return Node("seq", list(items), tag, flow)


def mapping(pairs, tag=None, flow=False):
    """``pairs``: iterable of (key, value); a ``str`` key is a plain scalar key"""
    return Node(
        "map",
        [(scalar(k) if isinstance(k, str) else k, v) for k, v in pairs],
        tag,
        flow,
    )


def py(value, flow=False):
    """Node for plain data: int, str (always double quoted), list, dict"""
    if isinstance(value, Node):
        return value
    if isinstance(value, bool) or value is None:
        raise TypeError("not needed by the generators: %r" % (value,))
    if isinstance(value, int):
        return scalar(str(value))
    if isinstance(value, str):
        return scalar(json.dumps(value))
    if isinstance(value, (list, tuple)):
        return seq([py(v, flow) for v in value], flow=flow)
    if isinstance(value, dict):
        for key in value:
            if not _PLAIN_KEY.match(key):
                raise ValueError("key %r is not a plain identifier" % (key,))
        return mapping([(k, py(v, flow)) for k, v in value.items()], flow=flow)
    raise TypeError("cannot write %r" % (value,))


def _join(*parts):
    return " ".join(p for p in parts if p)


def _flow(node):
    tag = node.tag or ""
    if node.kind == "scalar":
        if not node.value and tag:
            # an empty plain scalar after a tag must not swallow the next indicator
            return tag + ' ""'
        return _join(tag, node.value)
    if node.kind == "seq":
        return _join(tag, "[" + ", ".join(_flow(item) for item in node.value) + "]")
    return _join(
        tag,
        "{" + ", ".join("%s: %s" % (_flow(k), _flow(v)) for k, v in node.value) + "}",
    )


def _render(node, indent):
    """(text for the introducing line, following lines) of a node in block style"""
    tag = node.tag or ""
    if node.kind == "scalar":
        return _join(tag, node.value), []
    if node.flow or not node.value:
        bare = Node(node.kind, node.value, None, True)
        return _join(tag, _flow(bare)), []
    pad = " " * indent
    lines = []
    if node.kind == "seq":
        for item in node.value:
            head, rest = _render(item, indent + 2)
            if not head and rest:
                # compact notation: "- key: value" / "- - item"
                rest = [pad + "- " + rest[0][indent + 2:]] + rest[1:]
            else:
                lines.append(pad + _join("-", head))
            lines.extend(rest)
        return tag, lines
    for key, value in node.value:
        head, rest = _render(value, indent + 2)
        if key.kind == "scalar" and key.tag is None and key.value:
            lines.append(pad + _join(key.value + ":", head))
        else:
            key_head, key_rest = _render(key, indent + 2)
            lines.append(pad + _join("?", key_head))
            lines.extend(key_rest)
            lines.append(pad + _join(":", head))
        lines.extend(rest)
    return tag, lines


def document(root):
    """The text of a single document whose root node is ``root``"""
    head, lines = _render(root, 0)
    if head:
        lines = ["--- " + head] + lines
    return "\n".join(lines) + "\n"
