"""
trioclock - virtual-time exploration of service loops (DESIGN.md 2.2).

One real ``service.run()`` coroutine is executed by the stock ``trio.run`` under
``trio.testing.MockClock(autojump_threshold=0)`` (no threads, no wall-clock), next to an
*environment task* which performs a timed history of actions and finally cancels
everything at the end of the run duration.  Recorders (:class:`RecordingPool` and whatever
the check adds) append ``(virtual time, kind, name, value)`` tuples to one shared log, so
the log is a total order of everything that was observable.

Owned nondeterminism
    * the clock (MockClock, jumps as soon as every task sleeps);
    * trio's batch order: trio is switched to its deterministic-scheduling mode (each run
      batch sorted by task creation counter, then ``_r.shuffle(batch)``), and ``_r`` is
      replaced for the duration of a run by a :class:`BatchCoin` whose ``shuffle`` is a
      *choice point* whenever the environment task is about to act in the same batch as the
      service wakes up: choice 0 = service first, 1 = environment first.  Sorting by the
      creation counter also removes stock trio's ``id()``-based tie-break between equal
      deadlines.  :func:`explore` enumerates every sequence of choices (stateless DFS:
      every run starts from fresh objects).
    Everything is restored when a run ends.

Times: the mock clock starts at 0.0; sleeping adds the interval to the current time, so
for dyadic intervals (0.5, 1, 3, eps = T/4) every instant is exact in binary floating
point and instants can be compared with ``==``.
"""
import trio
import trio.testing
import trio._core._run as _trio_run

from cobald.interfaces import Pool

TASK_PREFIX = "trioclock:"


class Runaway(BaseException):
    """The run did not let virtual time advance (more run batches / log entries than any
    legitimate service needs)"""


def now():
    """Virtual time inside a run, None outside"""
    try:
        return trio.current_time()
    except RuntimeError:
        return None


class BatchCoin:
    """Stands in for ``trio._core._run._r`` while a run is active"""

    def __init__(self, real, choices, relevant, max_batches, on_runaway):
        self._real = real
        self.choices = tuple(choices)
        self.taken = []
        self.relevant = relevant
        self.batches = 0
        self.max_batches = max_batches
        self.on_runaway = on_runaway

    def shuffle(self, batch):
        self.batches += 1
        if self.batches > self.max_batches:
            if self.batches > 2 * self.max_batches:  # cancellation was swallowed as well
                raise Runaway("more than %d run batches" % self.max_batches)
            if self.batches == self.max_batches + 1:
                self.on_runaway("more than %d run batches" % self.max_batches)
        if len(batch) < 2:
            return
        # trio pops from the end: keep = lowest creation counter runs first
        batch.reverse()
        if sum(1 for task in batch if task.name.startswith(TASK_PREFIX)) < 2:
            return
        if not self.relevant():
            return
        index = len(self.taken)
        choice = self.choices[index] if index < len(self.choices) else 0
        self.taken.append(choice)
        if choice:
            batch.reverse()

    def random(self):
        return 1.0

    def __getattr__(self, name):
        return getattr(self._real, name)


class Run:
    """What one execution did"""

    __slots__ = ("exception", "returned", "ended_at", "cancelled", "taken", "end_time",
                 "runaway", "performed")

    def __init__(self):
        self.exception = None   # exception (not our cancellation) that left run()
        self.returned = False   # run() returned normally
        self.ended_at = None    # virtual time at which run() ended on its own
        self.cancelled = False  # run() was still running when we cancelled it
        self.taken = []         # batch-order choices taken (0 service first, 1 env first)
        self.end_time = None
        self.runaway = None     # description, if virtual time stopped advancing
        self.performed = 0      # environment actions performed


def run_once(service_run, actions, duration, choices=(), max_batches=5000):
    """Execute ``await service_run()`` for ``duration`` virtual seconds.

    ``actions`` is a list of ``(time, callable)`` in non-decreasing order of time; the
    environment task calls ``callable()`` at virtual time ``time`` (the clock starts at 0).
    At ``duration`` the environment task cancels the service.  ``choices`` fixes the batch
    order at the choice points (missing entries = 0)."""
    result = Run()
    pending = list(actions)
    cursor = [0]

    def env_is_due():
        index = cursor[0]
        due = pending[index][0] if index < len(pending) else duration
        return due <= trio.current_time()

    async def service_task():
        try:
            await service_run()
        except trio.Cancelled:
            result.cancelled = True
            raise
        except BaseException as err:  # noqa: B902, B036 - reported, not swallowed
            result.exception = err
            result.ended_at = trio.current_time()
        else:
            result.returned = True
            result.ended_at = trio.current_time()

    async def env_task(cancel_scope):
        while cursor[0] < len(pending):
            when, action = pending[cursor[0]]
            if when > trio.current_time():
                await trio.sleep_until(when)
            action()
            cursor[0] += 1
            result.performed += 1
        if duration > trio.current_time():
            await trio.sleep_until(duration)
        result.end_time = trio.current_time()
        cancel_scope.cancel()

    root = []

    def on_runaway(what):
        # gentle end: cancel everything, so that trio.run unwinds normally
        result.runaway = what
        result.end_time = trio.current_time()
        root[0].cancel()

    async def main():
        async with trio.open_nursery() as nursery:
            root.append(nursery.cancel_scope)
            nursery.start_soon(service_task, name=TASK_PREFIX + "service")
            nursery.start_soon(env_task, nursery.cancel_scope, name=TASK_PREFIX + "env")

    coin = BatchCoin(_trio_run._r, choices, env_is_due, max_batches, on_runaway)
    saved = (_trio_run._r, _trio_run._ALLOW_DETERMINISTIC_SCHEDULING)
    _trio_run._r = coin
    _trio_run._ALLOW_DETERMINISTIC_SCHEDULING = True
    try:
        trio.run(main, clock=trio.testing.MockClock(autojump_threshold=0))
    except trio.TrioInternalError as err:
        cause = err.__cause__ or err.__context__
        if not isinstance(cause, Runaway):
            raise
        result.runaway = str(cause)
    except Runaway as err:
        result.runaway = str(err)
    finally:
        _trio_run._r, _trio_run._ALLOW_DETERMINISTIC_SCHEDULING = saved
    result.taken = list(coin.taken)
    return result


def explore(build, duration, max_choices=10):
    """Run ``build()``'s scenario under every batch order.

    ``build() -> (service_run, actions, context)`` must construct *fresh* objects.  Yields
    ``(run, context)`` once per distinct sequence of choices; choice points beyond
    ``max_choices`` keep choice 0 (``run.taken`` tells how many there were)."""
    stack = [()]
    while stack:
        prefix = stack.pop()
        service_run, actions, context = build()
        run = run_once(service_run, actions, duration, prefix)
        yield run, context
        for index in range(len(prefix), min(len(run.taken), max_choices)):
            stack.append(tuple(run.taken[:index]) + (1,))


# ---------------------------------------------------------------------------------------
# recorders


class RecordingPool(Pool):
    """A pool that logs every property read and every demand write with the virtual time.

    Log entries: ``(time, "get"|"set", name, attribute, value)``.  The environment changes
    the state with :meth:`poke` (logged as ``"env"``) and the oracle looks at it with
    :meth:`peek` (not logged)."""

    def __init__(self, log, name="pool", demand=0.0, supply=0.0, utilisation=1.0,
                 allocation=1.0, max_log=20000):
        self.log = log
        self.name = name
        self.max_log = max_log
        self.state = {"demand": demand, "supply": supply, "utilisation": utilisation,
                      "allocation": allocation}

    def _record(self, kind, attribute, value):
        if len(self.log) >= self.max_log:
            raise Runaway("more than %d log entries" % self.max_log)
        self.log.append((now(), kind, self.name, attribute, value))

    def _get(self, attribute):
        value = self.state[attribute]
        self._record("get", attribute, value)
        return value

    @property
    def demand(self):
        return self._get("demand")

    @demand.setter
    def demand(self, value):
        self._record("set", "demand", value)
        self.state["demand"] = value

    @property
    def supply(self):
        return self._get("supply")

    @property
    def utilisation(self):
        return self._get("utilisation")

    @property
    def allocation(self):
        return self._get("allocation")

    def poke(self, **changes):
        for attribute, value in changes.items():
            self.log.append((now(), "env", self.name, attribute, value))
            self.state[attribute] = value

    def peek(self, attribute):
        return self.state[attribute]

    def __repr__(self):
        return "<RecordingPool %s>" % self.name
