"""
An accumulator that reports, for every violation key, the *smallest* counterexample seen
by any shard - independent of the order in which shards finish (``vlib.core.Acc`` keeps the
first three per key in arrival order, which depends on ``VERIF_SEED`` and on timing).

Usage in a check::

    def shard(args):
        acc = SmallestAcc()
        ...
        acc.violation(key, what, replay, size=(len(history), ...))
        return acc

    def run(ctx):
        ctx.acc = SmallestAcc()
        ctx.pmap(shard, shards)
        ctx.acc.settle()
"""
from vlib.core import Acc, jsonable


class SmallestAcc(Acc):
    __slots__ = ("best",)

    def __init__(self):
        super().__init__()
        self.best = {}  # key -> (rank, violation)

    def violation(self, key, what, replay, size=()):
        """``size``: tuple ordering counterexamples of one key, smallest first; ties are
        broken by the length and text of the replay data"""
        super().violation(key, what, replay)
        size = tuple(size)
        held = self.best.get(key)
        if held is not None and held[0][0] < size:
            return
        data = jsonable(replay)
        text = repr(data)
        rank = (size, len(text), text)
        if held is None or rank < held[0]:
            self.best[key] = (rank, {"key": key, "what": what, "replay": data})

    def merge(self, other):
        super().merge(other)
        for key, (rank, violation) in getattr(other, "best", {}).items():
            held = self.best.get(key)
            if held is None or rank < held[0]:
                self.best[key] = (rank, violation)
        return self

    def settle(self):
        """Make the smallest counterexample of every key the one that is reported"""
        self.violations = [self.best[key][1] for key in sorted(self.best)]
