"""
cosched - baton scheduler: one controlled thread runs at any instant; every blocking
operation blocks *in the scheduler*; time is virtual; every scheduling decision is a
recorded choice that can be replayed.

See DESIGN.md section 2.1.
"""
from __future__ import annotations

import _thread
import collections
import signal
import threading
import time
from typing import Callable, Dict, List, Optional

REAL_ALLOCATE_LOCK = _thread.allocate_lock
REAL_EVENT = threading.Event
REAL_THREAD = threading.Thread
REAL_SLEEP = time.sleep
REAL_LOCK_TYPE = type(_thread.allocate_lock())

#: the scheduler of the execution in progress in this process (at most one)
ACTIVE: Optional["Scheduler"] = None


class RealEvent:
    """An event made of raw locks only (threading.Event would pick up patched primitives)"""

    def __init__(self):
        self._lock = REAL_ALLOCATE_LOCK()
        self._lock.acquire()
        self._flag = False

    def set(self):
        if not self._flag:
            self._flag = True
            self._lock.release()

    def is_set(self):
        return self._flag

    isSet = is_set

    def wait(self, timeout=None):
        if self._flag:
            return True
        if self._lock.acquire(True, -1 if timeout is None else timeout):
            self._lock.release()
        return self._flag

    def _at_fork_reinit(self):
        pass


class Abort(BaseException):
    """Unwinds a controlled thread at the end of an execution (never seen by oracles)"""


class ReplayDivergence(Exception):
    """A recorded choice is not available at its point: the execution is not the recorded one"""


class LT:
    """Logical thread"""

    __slots__ = (
        "name", "baton", "state", "pred", "deadline", "steps", "parked", "abort",
        "done_real", "thread", "children", "is_main", "what", "yielding", "torn",
        "last_run",
    )

    def __init__(self, name: str, is_main: bool = False):
        self.name = name
        self.baton = REAL_ALLOCATE_LOCK()
        self.baton.acquire()
        self.state = "run"  # run | wait | done
        self.pred: Optional[Callable[[], bool]] = None
        self.deadline: Optional[float] = None
        self.steps = 0
        self.parked = False
        self.abort = False
        self.done_real = RealEvent()
        self.thread = None
        self.children = 0
        self.is_main = is_main
        self.what = ""
        self.yielding = False
        self.torn = False
        self.last_run = 0

    def __repr__(self):
        return "<LT %s %s %s>" % (self.name, self.state, self.what)


class _Named:
    __slots__ = ("name",)

    def __init__(self, name):
        self.name = name


class _TimeJump:
    """Alternative: virtual time jumps to the deadline of a sleeping thread, which runs"""

    __slots__ = ("name", "thread")

    def __init__(self, thread):
        self.thread = thread
        self.name = "%s@%.6g" % (thread.name, thread.deadline)


class EnvEvent:
    """An environment event (e.g. SIGINT arrives): a pseudo thread run by the scheduler"""

    __slots__ = ("name", "enabled", "fire", "cost", "deadline", "fired")

    def __init__(self, name, enabled, fire, cost=0, deadline=None):
        self.name = name
        self.enabled = enabled
        self.fire = fire
        self.cost = cost
        self.deadline = deadline
        self.fired = False


class Scheduler:
    def __init__(
        self,
        prefix: List[str],
        free_switch_cost: int = 0,
        max_points: int = 20000,
        spin_time: float = 0.0,
        line_points: bool = False,
        time_horizon: float = 120.0,
        time_jump_cost: Optional[int] = None,
        time_jump_max: float = 0.3,
        thread_start_faults: bool = False,
    ):
        self.prefix = list(prefix)
        #: environment fault: the OS may refuse to start a payload thread (one deviation)
        self.thread_start_faults = thread_start_faults
        self.free_switch_cost = free_switch_cost
        self.max_points = max_points
        self.spin_time = spin_time
        self.line_points = line_points
        self.time_horizon = time_horizon
        self.time_jump_cost = time_jump_cost
        self.time_jump_max = time_jump_max
        self.now = 0.0
        self.threads: Dict[str, LT] = {}
        self.by_ident: Dict[int, LT] = {}
        self.main = LT("main", is_main=True)
        self.main.thread = threading.current_thread()
        self.threads["main"] = self.main
        self.by_ident[threading.get_ident()] = self.main
        self.current: LT = self.main
        #: recorded choices: (alternative names, alternative costs, chosen index, kind)
        self.trace: List[tuple] = []
        self.points = 0
        self.env_events: List[EnvEvent] = []
        self.aborting = False
        self.deadlock = False
        self.deadlock_info = None
        self.horizon_hit = False
        self.sigint_pending = False
        self.sigints_delivered = 0
        self.log: List[tuple] = []
        self.states = set()
        self.point_kinds = collections.Counter()
        self.errors: List[str] = []
        self.started = False

    # -- identity ------------------------------------------------------------------
    def me(self) -> Optional[LT]:
        return self.by_ident.get(threading.get_ident())

    def record(self, event: str, **data):
        lt = self.me()
        self.log.append((len(self.log), self.now, lt.name if lt else "?", event, data))

    # -- threads -------------------------------------------------------------------
    def new_thread(self, parent: Optional[LT], label: Optional[str] = None) -> LT:
        if parent is None:
            base = "ext"
            index = sum(1 for n in self.threads if n.startswith("ext"))
        else:
            base, index = parent.name, parent.children
            parent.children += 1
        name = "%s/%s" % (base, label or index)
        while name in self.threads:
            name += "'"
        lt = LT(name)
        if self.aborting:
            lt.abort = True
        self.threads[name] = lt
        return lt

    def thread_begin(self, lt: LT):
        """Called by the new real thread itself: register and park until scheduled"""
        self.by_ident[threading.get_ident()] = lt
        self._park(lt)

    def thread_exit(self, lt: LT):
        lt.state = "done"
        lt.what = "exit"
        try:
            if not self.aborting:
                self._dispatch(lt)
        except Abort:
            pass
        finally:
            self.by_ident.pop(threading.get_ident(), None)
            lt.done_real.set()

    # -- scheduling points ---------------------------------------------------------
    def point(self, kind: str, yielding: bool = False):
        """A scheduling point of the calling thread, which stays runnable"""
        lt = self.me()
        if lt is None or self.aborting:
            if lt is not None and lt.abort and lt.state != "done":
                pass
            return
        lt.what = kind
        lt.yielding = yielding
        self._step(lt, kind)
        self._dispatch(lt)
        lt.yielding = False
        self._on_resume(lt)

    def wait_until(self, pred: Callable[[], bool], deadline: Optional[float] = None,
                   kind: str = "wait") -> bool:
        """Block the calling thread in the scheduler until ``pred()`` or ``deadline``"""
        lt = self.me()
        if lt is None:
            return self._uncontrolled_wait(pred, deadline)
        if self.aborting:
            raise Abort()
        while True:
            if lt.is_main and self.sigint_pending:
                self._on_resume(lt)
            if pred():
                return True
            if deadline is not None and deadline <= self.now:
                return False
            lt.what = kind
            lt.pred, lt.deadline, lt.state = pred, deadline, "wait"
            self._step(lt, kind)
            try:
                self._dispatch(lt)
            finally:
                lt.state, lt.pred, lt.deadline = "run", None, None
            self._on_resume(lt)

    def sleep(self, seconds: float):
        if self.me() is None:
            return REAL_SLEEP(min(seconds, 0.01))
        if seconds <= 0:
            self.advance(self.spin_time)
            return self.point("sleep0", yielding=True)
        self.wait_until(lambda: False, self.now + seconds, kind="sleep")

    def advance(self, seconds: float):
        if seconds > 0:
            self.now += seconds

    def _uncontrolled_wait(self, pred, deadline):
        # a thread the scheduler does not know (should not happen during an execution)
        limit = time.monotonic() + 5.0
        while not pred():
            if time.monotonic() > limit:
                return False
            REAL_SLEEP(0.001)
        return True

    def _step(self, lt: LT, kind: str):
        lt.steps += 1
        self.points += 1
        self.point_kinds[kind] += 1
        self.states.add(hash(tuple((t.name, t.steps, t.state) for t in self.threads.values())))
        if self.points > self.max_points:
            self.horizon_hit = True
            self._abort_all(lt, "step horizon")

    def _on_resume(self, lt: LT):
        if lt.is_main and self.sigint_pending and not self.aborting:
            self.sigint_pending = False
            self.sigints_delivered += 1
            self.record("sigint-delivered")
            signal.raise_signal(signal.SIGINT)
            # the Python-level handler runs at the next bytecode boundary
            for _ in (1, 2):
                pass

    def _is_enabled(self, lt: LT) -> bool:
        if lt.state == "run":
            return True
        if lt.state == "wait":
            if lt.deadline is not None and lt.deadline <= self.now:
                return True
            if lt.is_main and self.sigint_pending:
                return True
            return bool(lt.pred())
        return False

    def _alternatives(self, lt: LT):
        """(alternatives, costs): the calling thread first if it may continue"""
        me_enabled = lt.state != "done" and self._is_enabled(lt)
        others = sorted(
            (t for t in self.threads.values() if t is not lt and self._is_enabled(t)),
            key=lambda t: (t.last_run, t.name),
        )
        alts, costs = [], []
        if me_enabled and not lt.yielding:
            alts.append(lt)
            costs.append(0)
        for index, other in enumerate(others):
            alts.append(other)
            if me_enabled and not lt.yielding:
                costs.append(1)
            else:
                costs.append(0 if index == 0 else self.free_switch_cost)
        if me_enabled and lt.yielding:
            alts.append(lt)
            costs.append(self.free_switch_cost if others else 0)
        if alts and self.time_jump_cost is not None:
            # TIME deviation: the running thread is slow - the earliest timer fires first
            sleepers = [t for t in self.threads.values()
                        if t is not lt and t.state == "wait" and t.deadline is not None
                        and t.deadline != float("inf") and t not in alts]
            if sleepers:
                first = min(t.deadline for t in sleepers)
                # bounded slowness: only timers that are due "soon" may overtake
                if first <= self.time_horizon and first - self.now <= self.time_jump_max:
                    for t in sorted(sleepers, key=lambda t: t.name):
                        if t.deadline == first:
                            alts.append(_TimeJump(t))
                            costs.append(self.time_jump_cost)
        if alts:
            # an environment event may happen instead of a thread step; when no thread can
            # run, time passes (events with a deadline fire when it is reached)
            for event in self.env_events:
                if not event.fired and event.enabled(self):
                    alts.append(event)
                    costs.append(event.cost)
        return alts, costs

    def _choose(self, alts, costs, kind):
        if len(alts) == 1:
            return alts[0]
        names = [a.name for a in alts]
        index = len(self.trace)
        if index < len(self.prefix):
            wanted = self.prefix[index]
            if wanted not in names:
                raise ReplayDivergence(
                    "choice %d: %r not among %r (%s)" % (index, wanted, names, kind))
            chosen = names.index(wanted)
        else:
            chosen = 0
        self.trace.append((names, costs, chosen, kind))
        return alts[chosen]

    def _dispatch(self, lt: LT):
        """Pick who runs next; hand the baton over if it is not the caller"""
        while True:
            if self.now > self.time_horizon and not self.aborting:
                self.horizon_hit = True
                self._abort_all(lt, "time horizon")
            for event in self.env_events:
                if not event.fired and event.deadline is not None and event.deadline <= self.now:
                    event.fired = True
                    event.fire(self)
            alts, costs = self._alternatives(lt)
            if not alts:
                if self._advance_time():
                    continue
                if lt.state == "done" and all(
                    t.state == "done" for t in self.threads.values()
                ):
                    return
                self.deadlock = True
                self.deadlock_info = [(t.name, t.state, t.what) for t in self.threads.values()]
                self._abort_all(lt, "deadlock")
                return
            try:
                chosen = self._choose(alts, costs, lt.what)
            except ReplayDivergence as err:
                self.errors.append("REPLAY-DIVERGENCE %s" % err)
                self._abort_all(lt, "divergence")
                return
            if isinstance(chosen, EnvEvent):
                chosen.fired = True
                chosen.fire(self)
                continue
            if isinstance(chosen, _TimeJump):
                self.now = max(self.now, chosen.thread.deadline)
                chosen = chosen.thread
            break
        if chosen is lt:
            return
        self.current = chosen
        chosen.last_run = self.points
        if lt.state == "run":
            # a preempted thread goes to the back of the queue: by default it stays
            # descheduled until the others block (resuming it earlier is a deviation)
            lt.last_run = self.points
        self._grant(chosen)
        if lt.state != "done":
            self._park(lt)

    def _advance_time(self) -> bool:
        deadlines = [t.deadline for t in self.threads.values()
                     if t.state == "wait" and t.deadline is not None]
        deadlines += [e.deadline for e in self.env_events
                      if not e.fired and e.deadline is not None]
        deadlines = [d for d in deadlines if d != float("inf")]
        if not deadlines:
            return False
        target = min(deadlines)
        if target > self.time_horizon:
            self.horizon_hit = True
            self._abort_all(self.me() or self.main, "time horizon")
        if target > self.now:
            self.now = target
        for event in self.env_events:
            if not event.fired and event.deadline is not None and event.deadline <= self.now:
                # a forced environment event: fires when its time has come
                event.fired = True
                event.fire(self)
        return True

    def _grant(self, lt: LT):
        lt.baton.release()

    def _park(self, lt: LT):
        lt.parked = True
        lt.baton.acquire()
        lt.parked = False
        if lt.abort:
            raise Abort()

    # -- ending an execution ---------------------------------------------------------
    def _abort_all(self, lt: LT, why: str):
        """Called by the running thread: end the execution now"""
        if not self.aborting:
            self.aborting = True
            self.record("abort", why=why)
            if not lt.is_main:
                self.main.abort = True
                if self.main.parked or self.main.state != "done":
                    self._grant(self.main)
        raise Abort()

    def teardown(self, timeout: float = 10.0) -> bool:
        """Main thread: drive every other logical thread to its exit, one at a time"""
        self.aborting = True
        clean = True
        for _round in range(50):
            pending = [t for t in self.threads.values()
                       if not t.is_main and not t.done_real.is_set()]
            if not pending:
                break
            for lt in pending:
                lt.abort = True
                if not lt.torn:
                    # the baton is held (locked) unless a grant is outstanding
                    lt.torn = True
                    try:
                        self._grant(lt)
                    except RuntimeError:
                        pass
                if not lt.done_real.wait(timeout):
                    clean = False
                    self.errors.append("teardown: thread %s did not exit" % lt.name)
        for lt in self.threads.values():
            if lt.thread is not None and not lt.is_main:
                REAL_THREAD.join(lt.thread, timeout)
                if lt.thread.is_alive():
                    clean = False
        return clean

    # -- other owned nondeterminism --------------------------------------------------
    def choice(self, kind: str, names: List[str], costs: List[int]) -> int:
        """A data choice (not a thread switch) made by the running thread"""
        if self.aborting or self.me() is None:
            return 0
        alts = [_Named(name) for name in names]
        self.point_kinds[kind] += 1
        try:
            chosen = self._choose(alts, list(costs), kind)
        except ReplayDivergence as err:
            self.errors.append("REPLAY-DIVERGENCE %s" % err)
            self._abort_all(self.me(), "divergence")
        return alts.index(chosen)

    def drain(self, seconds: float):
        """Main thread, after the scenario body: let the other threads run on"""
        others_done = lambda: all(  # noqa: E731
            t.state == "done" for t in self.threads.values() if not t.is_main)
        self.time_horizon = max(self.time_horizon, self.now + seconds + 1.0)
        self.wait_until(others_done, self.now + seconds, kind="drain")

    # -- environment events ----------------------------------------------------------
    def add_env_event(self, event: EnvEvent):
        self.env_events.append(event)

    def total_cost(self) -> int:
        return sum(costs[chosen] for _names, costs, chosen, _kind in self.trace)


# =======================================================================================
# scheduler-aware primitives


class ALock:
    """Replacement of ``threading.Lock``: blocks in the scheduler"""

    def __init__(self):
        self._real = REAL_ALLOCATE_LOCK()
        self._used = False

    def acquire(self, blocking=True, timeout=-1):
        sched = ACTIVE
        lt = sched.me() if sched is not None else None
        if lt is None or sched.aborting:
            if lt is not None and lt.abort:
                if self._real.acquire(False):
                    return True
                raise Abort()
            if timeout is not None and timeout >= 0:
                return self._real.acquire(blocking, timeout)
            return self._real.acquire(blocking)
        if self._used:
            sched.point("lock")
        self._used = True
        if self._real.acquire(False):
            return True
        if not blocking:
            return False
        deadline = None if timeout is None or timeout < 0 else sched.now + timeout
        while True:
            if not sched.wait_until(lambda: not self._real.locked(), deadline, kind="lock-wait"):
                return False
            if self._real.acquire(False):
                return True

    __enter__ = acquire

    def release(self):
        self._real.release()

    def __exit__(self, *exc):
        self._real.release()

    def locked(self):
        return self._real.locked()

    def _at_fork_reinit(self):
        self._real = REAL_ALLOCATE_LOCK()

    def __repr__(self):
        return "<ALock %s>" % ("locked" if self._real.locked() else "unlocked")


class AEvent:
    """Replacement of ``threading.Event``; every operation is a scheduling point"""

    def __init__(self):
        self._flag = False

    def _point(self, kind):
        sched = ACTIVE
        if sched is not None:
            sched.point(kind)

    def is_set(self):
        self._point("event-is_set")
        return self._flag

    def peek(self):
        """The flag, without a scheduling point (for harness predicates only)"""
        return self._flag

    isSet = is_set

    def set(self):
        self._point("event-set")
        self._flag = True

    def clear(self):
        self._point("event-clear")
        self._flag = False

    def wait(self, timeout=None):
        sched = ACTIVE
        if sched is None or sched.me() is None:
            limit = None if timeout is None else time.monotonic() + timeout
            while not self._flag:
                if limit is not None and time.monotonic() > limit:
                    break
                REAL_SLEEP(0.001)
            return self._flag
        sched.point("event-wait")
        deadline = None if timeout is None else sched.now + timeout
        sched.wait_until(lambda: self._flag, deadline, kind="event-wait")
        return self._flag

    def _at_fork_reinit(self):
        pass

    def __repr__(self):
        return "<AEvent %s>" % ("set" if self._flag else "unset")


class AQueue:
    """Replacement of ``queue.SimpleQueue``"""

    def __init__(self):
        self._items = collections.deque()

    def put(self, item, block=True, timeout=None):
        sched = ACTIVE
        if sched is not None:
            sched.point("queue-put")
        self._items.append(item)

    def put_nowait(self, item):
        self.put(item)

    def get(self, block=True, timeout=None):
        import queue as _queue

        sched = ACTIVE
        if sched is None or sched.me() is None:
            limit = None if timeout is None else time.monotonic() + timeout
            while not self._items:
                if not block or (limit is not None and time.monotonic() > limit):
                    raise _queue.Empty
                REAL_SLEEP(0.001)
            return self._items.popleft()
        sched.point("queue-get")
        if not self._items:
            if not block:
                raise _queue.Empty
            deadline = None if timeout is None else sched.now + timeout
            if not sched.wait_until(lambda: bool(self._items), deadline, kind="queue-get"):
                raise _queue.Empty
        return self._items.popleft()

    def get_nowait(self):
        return self.get(block=False)

    def empty(self):
        return not self._items

    def qsize(self):
        return len(self._items)

    __class_getitem__ = classmethod(lambda cls, item: cls)


class AThread(REAL_THREAD):
    """Replacement of ``threading.Thread``: a logical thread of the scheduler"""

    _cosched_label = None
    _cosched_counter = [0]

    def __hash__(self):
        # sets of threads (e.g. ThreadPoolExecutor._threads) iterate in creation order
        # instead of address order, so that joins happen in a reproducible order
        return self._cosched_seq

    def __init__(self, *args, **kwargs):
        AThread._cosched_counter[0] += 1
        self._cosched_seq = AThread._cosched_counter[0]
        super().__init__(*args, **kwargs)
        # Thread.__init__ picked up the patched Event; the start handshake must stay real
        self._started = RealEvent()
        self._cosched_lt = None
        self._cosched_sched = None

    def start(self):
        sched = ACTIVE
        if sched is None:
            return super().start()
        parent = sched.me()
        if sched.thread_start_faults and parent is not None and getattr(
                getattr(self, "_target", None), "__name__", "") == "_monitor_payload":
            if sched.choice("thread-start-fault", ["start", "refuse"], [0, 1]) == 1:
                sched.record("thread-start-refused")
                raise RuntimeError("can't start new thread")
        label = getattr(self, "_cosched_label", None)
        lt = sched.new_thread(parent, label)
        lt.thread = self
        self._cosched_lt, self._cosched_sched = lt, sched
        super().start()
        sched.point("thread-start")

    def run(self):
        sched, lt = self._cosched_sched, self._cosched_lt
        if sched is None:
            return super().run()
        try:
            sched.thread_begin(lt)
            super().run()
        except Abort:
            pass
        finally:
            sched.thread_exit(lt)

    def join(self, timeout=None):
        sched, lt = self._cosched_sched, self._cosched_lt
        active = ACTIVE
        if sched is None or active is not sched or active.me() is None or active.aborting:
            if active is not None and active is sched and active.aborting and \
                    active.me() is not None and not lt.done_real.is_set():
                raise Abort()
            return super().join(timeout)
        sched.point("join")
        deadline = None if timeout is None else sched.now + timeout
        sched.wait_until(lambda: lt.state == "done", deadline, kind="join")

    def is_alive(self):
        lt = self._cosched_lt
        if lt is not None and self._cosched_sched is ACTIVE and ACTIVE is not None:
            return self._started.is_set() and lt.state != "done"
        return super().is_alive()
