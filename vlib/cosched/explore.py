"""
cosched - running one execution, and the stateless depth-first explorer over choice
prefixes with iterative deviation bounding.
"""
from __future__ import annotations

import logging
import json
import os
import pickle
import select
import signal
import struct
import sys
import threading
import time
import traceback
from typing import Any, Callable, Dict, List, Optional

from . import sched as S
from . import seams

WATCHDOG_S = 120.0


class Env:
    """What a scenario sees"""

    def __init__(self, scheduler: S.Scheduler):
        self.sched = scheduler
        self.shared: Dict[str, Any] = {}

    @property
    def now(self) -> float:
        return self.sched.now

    def log(self, event: str, **data):
        self.sched.record(event, **data)

    def events(self, *names):
        return [e for e in self.sched.log if not names or e[3] in names]

    def spawn(self, fn: Callable, label: str, *args) -> threading.Thread:
        thread = threading.Thread(target=fn, args=args, daemon=True)
        thread._cosched_label = label
        thread.start()
        return thread

    def sleep(self, seconds: float):
        self.sched.sleep(seconds)

    def point(self, kind="user"):
        self.sched.point(kind)

    def sigint(self, enabled: Callable[[S.Scheduler], bool], deadline: Optional[float] = None,
               cost: int = 0, name: str = "~sigint"):
        """SIGINT arrives at a point the explorer chooses once ``enabled`` holds, at the
        latest at virtual time ``deadline``"""

        def fire(scheduler):
            scheduler.sigint_pending = True
            scheduler.record("sigint-raised")

        self.sched.add_env_event(S.EnvEvent(name, enabled, fire, cost=cost, deadline=deadline))


class Execution:
    __slots__ = ("choices", "trace", "log", "deadlock", "deadlock_info", "horizon", "errors",
                 "clean", "points", "states", "now", "result", "point_kinds", "diverged",
                 "threads")

    def cost_before(self, index: int) -> int:
        return sum(costs[chosen] for _n, costs, chosen, _k in self.trace[:index])


def run_execution(scenario, prefix: List[str], opts: Dict[str, Any]) -> Execution:
    """One execution of ``scenario`` under the choice ``prefix`` (default choices after it)"""
    scheduler = S.Scheduler(
        prefix,
        free_switch_cost=opts.get("free_switch_cost", 0),
        max_points=opts.get("max_points", 20000),
        spin_time=opts.get("spin_time", 0.0),
        line_points=opts.get("line_points", False),
        time_horizon=opts.get("time_horizon", 120.0),
        time_jump_cost=opts.get("time_jump_cost"),
        time_jump_max=opts.get("time_jump_max", 0.3),
        thread_start_faults=opts.get("thread_start_faults", False),
    )
    env = Env(scheduler)
    result: Dict[str, Any] = {}
    root = logging.getLogger()
    saved_handlers, saved_level = root.handlers[:], root.level
    root.handlers[:] = [seams._Quiet()]
    saved_raise, logging.raiseExceptions = logging.raiseExceptions, False
    try:
        signal.signal(signal.SIGINT, signal.default_int_handler)
    except ValueError:
        pass
    seams.install(scheduler)
    if scheduler.line_points:
        seams.enable_line_points(opts["line_package"])
    try:
        try:
            result["value"] = scenario.main(env)
            scheduler.drain(opts.get("drain", 30.0))
        except S.Abort:
            pass
        except KeyboardInterrupt:
            # a SIGINT that arrived when no blocking run was there to take it (the run had
            # already ended for another reason): part of the observation, not a harness fault
            scheduler.record("stray-keyboardinterrupt")
        except BaseException as err:  # noqa: B036 - scenario bodies catch what they test
            scheduler.errors.append(
                "scenario body raised %s\n%s" % (repr(err), traceback.format_exc()))
    finally:
        try:
            clean = scheduler.teardown()
        finally:
            if scheduler.line_points:
                seams.disable_line_points()
            seams.uninstall()
            root.handlers[:] = saved_handlers
            root.setLevel(saved_level)
            logging.raiseExceptions = saved_raise
            try:
                signal.signal(signal.SIGINT, signal.default_int_handler)
            except ValueError:
                pass
    ex = Execution()
    ex.trace = scheduler.trace
    ex.choices = [names[chosen] for names, _c, chosen, _k in scheduler.trace]
    ex.log = scheduler.log
    ex.deadlock = scheduler.deadlock
    ex.deadlock_info = scheduler.deadlock_info
    ex.horizon = scheduler.horizon_hit
    ex.errors = scheduler.errors
    ex.diverged = any(e.startswith("REPLAY-DIVERGENCE") for e in scheduler.errors)
    ex.clean = clean and not scheduler.deadlock and not scheduler.horizon_hit
    ex.points = scheduler.points
    ex.states = scheduler.states
    ex.now = scheduler.now
    ex.result = result.get("value")
    ex.point_kinds = scheduler.point_kinds
    ex.threads = [(t.name, t.state, t.what) for t in scheduler.threads.values()]
    return ex


# ---------------------------------------------------------------------------------------
# exploration of one scenario (runs inside a forked child of the shard's zygote)


class Found:
    """A violation found by a scenario's oracle"""

    __slots__ = ("key", "what", "choices")

    def __init__(self, key, what, choices):
        self.key, self.what, self.choices = key, what, choices


def _dfs(build, spec, stack, report, budget):
    """Explore prefixes from ``stack``; returns when done, out of budget or contaminated"""
    opts, bound = spec["opts"], spec["bound"]
    stats = {"executions": 0, "points": 0, "states": set(), "outcomes": set(),
             "violations": [], "diverged": 0, "infra": [], "point_kinds": {},
             "max_choices": 0, "samples": [], "stopped": False, "deviating": 0}
    contaminated = False
    while stack and not contaminated:
        if budget is not None and stats["executions"] >= budget:
            break
        prefix = stack.pop()
        report(("hb", len(prefix)))
        # nothing of the previous execution may be alive while the next one runs (its log
        # refers to exceptions, hence frames, hence services of that execution)
        scenario = ex = verdict = None
        scenario = build(spec)
        ex = run_execution(scenario, prefix, opts)
        if ex.diverged:
            for _retry in range(3):
                scenario = ex = None
                scenario = build(spec)
                ex = run_execution(scenario, prefix, opts)
                if not ex.diverged:
                    break
        part, parts = spec.get("part", (0, 1))
        root_of_other_part = not prefix and part != 0
        if not root_of_other_part:
            stats["executions"] += 1
        if prefix:
            stats["deviating"] += 1
        stats["points"] += ex.points
        stats["states"] |= ex.states
        stats["max_choices"] = max(stats["max_choices"], len(ex.trace))
        for kind, n in ex.point_kinds.items():
            kind = kind.split(":")[0]
            stats["point_kinds"][kind] = stats["point_kinds"].get(kind, 0) + n
        if ex.diverged:
            stats["diverged"] += 1
            contaminated = True
            if os.environ.get("VERIF_DIVERGE_LOG"):
                with open(os.environ["VERIF_DIVERGE_LOG"], "a") as stream:
                    stream.write(json.dumps({"params": spec["params"], "prefix": prefix,
                                             "opts": opts, "errors": ex.errors[:3]},
                                            default=repr) + "\n")
            continue
        infra = [e for e in ex.errors if not e.startswith("REPLAY-DIVERGENCE")]
        if infra:
            stats["infra"].append({"prefix": prefix, "errors": infra})
            contaminated = True
            continue
        verdict = scenario.check(ex)
        stats["outcomes"].add(verdict.get("outcome"))
        if len(stats["samples"]) < 2:
            stats["samples"].append({"scenario": spec["params"], "choices": ex.choices,
                                     "outcome": verdict.get("outcome")})
        for key, what in verdict.get("violations", []):
            stats["violations"].append({"key": key, "what": what, "choices": ex.choices})
        if not ex.clean or verdict.get("violations"):
            contaminated = True
        known = set(spec.get("known_keys", ()))
        if verdict.get("violations") and not spec.get("keep_going") and not all(
                key in known for key, _what in verdict["violations"]):
            # one counterexample decides the scenario; the rest of its schedules adds nothing
            stats["stopped"] = True
            stack = []
            break
        # children: every alternative at every later point within the bound
        cost = ex.cost_before(len(prefix))
        child = 0
        for index in range(len(prefix), len(ex.trace)):
            names, costs, chosen, _kind = ex.trace[index]
            for alt in range(len(names)):
                if alt != chosen and cost + costs[alt] <= bound:
                    child += 1
                    # a scenario may be split over several shards by its first deviation
                    if prefix or child % parts == part:
                        stack.append(ex.choices[:index] + [names[alt]])
            cost += costs[chosen]
    return stats, stack


def _send(fd, obj):
    data = pickle.dumps(obj)
    os.write(fd, struct.pack("<I", len(data)))
    view = memoryview(data)
    while view:
        written = os.write(fd, view)
        view = view[written:]


class _Reader:
    def __init__(self, fd):
        self.fd, self.buf = fd, b""

    def messages(self, timeout):
        """Yield complete messages; raises TimeoutError when nothing arrives in time"""
        while True:
            while len(self.buf) >= 4:
                (size,) = struct.unpack("<I", self.buf[:4])
                if len(self.buf) < 4 + size:
                    break
                payload, self.buf = self.buf[4:4 + size], self.buf[4 + size:]
                yield pickle.loads(payload)
            ready, _, _ = select.select([self.fd], [], [], timeout)
            if not ready:
                raise TimeoutError
            chunk = os.read(self.fd, 1 << 20)
            if not chunk:
                return
            self.buf += chunk


def explore_scenario(spec: Dict[str, Any]) -> Dict[str, Any]:
    """Zygote: explore one scenario completely within its bound.

    Executions run in forked children; a child that saw a violation, a deadlock, a horizon
    or any harness problem hands its remaining work back and is replaced by a fresh fork,
    so process-global state of cobald can never leak into a later execution.
    """
    build = _load_builder(spec)
    total = {"executions": 0, "points": 0, "states": 0, "outcomes": set(),
             "violations": [], "diverged": 0, "infra": [], "point_kinds": {},
             "max_choices": 0, "samples": [], "forks": 0, "spec": spec["params"],
             "capped": False, "stopped": False, "deviating": 0}
    states = set()
    stack: List[List[str]] = [list(p) for p in spec.get("roots", [[]])]
    budget = spec.get("budget")
    while stack:
        if budget is not None and total["executions"] >= budget:
            total["capped"] = True
            break
        remaining = None if budget is None else budget - total["executions"]
        stats, stack = _in_child(_dfs_child, (spec, stack, remaining))
        total["forks"] += 1
        total["stopped"] = total["stopped"] or stats["stopped"]
        for key in ("executions", "points", "diverged", "deviating"):
            total[key] += stats[key]
        states |= stats["states"]
        total["outcomes"] |= stats["outcomes"]
        total["violations"] += stats["violations"]
        total["infra"] += stats["infra"]
        total["max_choices"] = max(total["max_choices"], stats["max_choices"])
        for kind, n in stats["point_kinds"].items():
            total["point_kinds"][kind] = total["point_kinds"].get(kind, 0) + n
        if len(total["samples"]) < 2:
            total["samples"] += stats["samples"]
    total["states"] = len(states)
    # confirm every violation: replay its full choice list twice, each in a fresh process
    confirmed, unstable = [], []
    seen_keys = {}
    for violation in total["violations"]:
        seen_keys.setdefault(violation["key"], []).append(violation)
    for key, found in seen_keys.items():
        found.sort(key=lambda v: len(v["choices"]))
        candidate = found[0]
        keys = []
        for _ in (1, 2):
            keys.append(_in_child(_replay_child, (spec, candidate["choices"])))
        if all(key in ks for ks in keys):
            candidate["count"] = len(found)
            confirmed.append(candidate)
        else:
            unstable.append({"key": key, "replayed": keys, "choices": candidate["choices"]})
    total["violations"] = confirmed
    total["unstable"] = unstable
    return total


def _load_builder(spec):
    import importlib

    module = importlib.import_module(spec["module"])
    return getattr(module, spec.get("builder", "build"))


def _warm_up(build, spec):
    """One discarded execution of the default schedule in a fresh process.

    The first execution of a process differs from later ones in ways that are not the
    implementation's behaviour (modules imported lazily, byte code compiled, caches of
    entry points filled: more or fewer lock operations).  Every choice prefix is recorded
    and replayed in warmed-up processes only."""
    report = None
    try:
        scenario = build(spec)
        run_execution(scenario, [], spec["opts"])
    except BaseException:  # noqa: B036 - only a warm-up; the real executions report
        pass
    return report


def _dfs_child(arg, report):
    spec, stack, budget = arg
    build = _load_builder(spec)
    _warm_up(build, spec)
    return _dfs(build, spec, stack, report, budget)


def _replay_child(arg, report):
    spec, choices = arg
    build = _load_builder(spec)
    _warm_up(build, spec)
    scenario = build(spec)
    ex = run_execution(scenario, choices, spec["opts"])
    if ex.diverged:
        return ["<diverged>"]
    return [key for key, _what in scenario.check(ex).get("violations", [])]


def _in_child(fn, arg):
    """Run ``fn(arg, report)`` in a forked child; returns its result"""
    read_fd, write_fd = os.pipe()
    sys.stdout.flush()
    sys.stderr.flush()
    pid = os.fork()
    if pid == 0:
        status = 0
        try:
            os.close(read_fd)
            if not os.environ.get("COSCHED_STDERR"):
                # cancelled tasks, abandoned trio runs etc. of torn-down executions are
                # noisy; real problems travel through the pipe
                devnull = os.open(os.devnull, os.O_WRONLY)
                os.dup2(devnull, 2)
            try:
                out = fn(arg, lambda message: _send(write_fd, message))
                _send(write_fd, ("result", out))
            except BaseException:  # noqa: B036
                _send(write_fd, ("error", traceback.format_exc()))
                status = 3
        finally:
            os._exit(status)
    os.close(write_fd)
    reader = _Reader(read_fd)
    try:
        for kind, *rest in reader.messages(WATCHDOG_S):
            if kind == "result":
                return rest[0]
            if kind == "error":
                raise RuntimeError("cosched child failed:\n%s" % rest[0])
        raise RuntimeError("cosched child exited without a result (arg=%r)" % (arg[0],))
    except TimeoutError:
        os.kill(pid, signal.SIGKILL)
        raise RuntimeError("cosched child hung (watchdog %ss), spec=%r" % (WATCHDOG_S, arg[0]))
    finally:
        os.close(read_fd)
        try:
            os.waitpid(pid, 0)
        except ChildProcessError:
            pass


def replay_choices(spec, choices):
    """Re-run one recorded schedule in a fresh process; returns the violations seen"""
    return _in_child(_replay_detail_child, (spec, choices))


def _replay_detail_child(arg, report):
    spec, choices = arg
    build = _load_builder(spec)
    _warm_up(build, spec)
    scenario = build(spec)
    ex = run_execution(scenario, choices, spec["opts"])
    if ex.diverged:
        return {"diverged": True, "errors": ex.errors}
    verdict = scenario.check(ex)
    return {"diverged": False, "violations": verdict.get("violations", []),
            "outcome": verdict.get("outcome"),
            "log": [(seq, now, who, event, _safe_repr(data))
                    for seq, now, who, event, data in ex.log]}


def _safe_repr(obj):
    try:
        return repr(obj)
    except Exception:  # noqa: B902 - scenarios use values that cannot be printed
        return "<unprintable %s>" % type(obj).__name__
