"""
cosched - scenario kit: harness payloads of all flavours built from small descriptors,
with an event log the oracles read.

A payload descriptor is a dict:

``id``        unique label
``flavour``   "asyncio" | "trio" | "threading"
``steps``     list of steps, run in order:
                ("sleep", seconds)            sleep in the flavour's own way
                ("forever", period)           heartbeat loop: sleep(period) for ever
                ("spin", n)                   n zero-length sleeps (n=None: for ever)
                ("block",)                    (threading) block for ever on an event
                ("raise", kind)               raise an exception of ``kind`` (see EXCEPTIONS)
                ("return", kind)              return a value of ``kind`` (see VALUES)
                ("adopt", descriptor)         runtime.adopt(...) another payload from inside
                ("execute", descriptor)       runtime.execute(...) another payload from inside
                ("section", n)                n synchronous sections with a scheduling point
                                              inside (overlap detector of C11)
                ("service", descriptor)       create an instance of a fresh @service class
                ("service-drop",)             drop the reference to the service created last
                ("adopt-many", descriptor, k) adopt the very same callable k times
                ("adopt-own-loop", descriptor)   adopt from inside asyncio.run() of this thread
                ("forever-sections", period)  heartbeat loop with a scheduling point inside each step
                ("repeat-execute", descriptor, period)   execute another payload again and again
                ("stubborn", k, period)       (asyncio) heartbeat loop absorbing the first k cancellations
                ("repeat-adopt", d, period, n) (threading) adopt n copies of d, period apart
                ("wait-private",)             (coroutines) wait for an object nobody else refers to
                ("to-thread-call", name)      (coroutines) run env.shared[name](env) in a helper thread and wait for it
                ("section-adopt", descriptor) adopt another payload from inside a section
                ("call", name)                call env.shared[name](env)

``plain``     True: the coroutine payload is wrapped in a plain ``def`` that returns the awaitable
``cleanup``   None | ("sync", k) | ("shield", seconds) | ("sync-adopt", descriptor) |
              ("shield-adopt", seconds, descriptor)      (what its ``finally`` does)
``args`` / ``kwargs``   passed through adopt / execute and checked on arrival
"""
from __future__ import annotations

import asyncio
import threading

import trio

FLAVOURS = {"asyncio": asyncio, "trio": trio, "threading": threading}


class UserError(Exception):
    pass


class UserBaseError(BaseException):
    pass


class UserTimeout(TimeoutError):
    pass


def safe_repr(obj):
    """repr() for messages of the harness: scenarios use objects that cannot be printed"""
    try:
        return repr(obj)
    except Exception:  # noqa: B902
        if isinstance(obj, (tuple, list)):
            return "[%s]" % ", ".join(safe_repr(item) for item in obj)
        if isinstance(obj, dict):
            return "{%s}" % ", ".join("%s: %s" % (safe_repr(k), safe_repr(v))
                                      for k, v in obj.items())
        return "<unprintable %s>" % type(obj).__name__


class FalsyError(Exception):
    """An exception whose instances are falsy (it collects sub-errors, and has none)"""

    def __len__(self):
        return 0


class UnprintableError(Exception):
    """An exception whose message cannot be built"""

    def __str__(self):
        raise TypeError("this exception cannot be printed")


def make_exception(kind: str):
    if kind == "FalsyError":
        return FalsyError("boom")
    if kind == "UnprintableError":
        return UnprintableError("boom")
    if kind == "LookupError":
        return LookupError("boom")
    if kind == "UserError":
        return UserError("boom")
    if kind == "OSError":
        return OSError(5, "boom")
    if kind == "AssertionError":
        return AssertionError("boom")
    if kind == "StopIteration":
        return StopIteration("boom")
    if kind == "StopAsyncIteration":
        return StopAsyncIteration("boom")
    simple = {"KeyError": KeyError, "RuntimeError": RuntimeError, "TypeError": TypeError,
              "ValueError": ValueError, "AttributeError": AttributeError,
              "IndexError": IndexError, "ImportError": ImportError}
    if kind in simple:
        return simple[kind]("boom")
    if kind == "cf.CancelledError":
        import concurrent.futures

        return concurrent.futures.CancelledError("boom")
    if kind == "cf.InvalidStateError":
        import concurrent.futures

        return concurrent.futures.InvalidStateError("boom")
    if kind == "asyncio.InvalidStateError":
        return asyncio.InvalidStateError("boom")
    if kind == "TimeoutError":
        return TimeoutError("boom")
    if kind == "UserTimeout":
        return UserTimeout("boom")
    if kind == "ExceptionGroup":
        return ExceptionGroup("boom", [ValueError("inner")])
    if kind == "asyncio.CancelledError":
        return asyncio.CancelledError()
    if kind == "trio.Cancelled":
        return trio.Cancelled._create()
    if kind == "SystemExit":
        return SystemExit(3)
    if kind == "GeneratorExit":
        return GeneratorExit()
    if kind == "UserBaseError":
        return UserBaseError("boom")
    if kind == "KeyboardInterrupt":
        return KeyboardInterrupt()
    raise ValueError(kind)


EXCEPTION_KINDS = [
    "LookupError", "UserError", "OSError", "AssertionError", "StopIteration",
    "StopAsyncIteration", "ExceptionGroup",
    # classes that runtime code is tempted to special-case or that a library converts
    "KeyError", "RuntimeError", "TypeError", "AttributeError", "TimeoutError", "UserTimeout",
    "cf.CancelledError", "cf.InvalidStateError", "asyncio.InvalidStateError",
    # exception objects of an unusual make
    "FalsyError", "UnprintableError",
]
BASE_EXCEPTION_KINDS = [
    "SystemExit", "GeneratorExit", "UserBaseError", "asyncio.CancelledError",
    "trio.Cancelled", "KeyboardInterrupt",
]


class Unprintable:
    """A value whose str() and repr() raise (so does str(10 ** 5000) since Python 3.11)"""

    def __repr__(self):
        raise ValueError("this object cannot be printed")

    __str__ = __repr__


def make_value(kind: str):
    if kind == "unprintable":
        return Unprintable()
    if kind == "huge-int":
        return 10 ** 5000
    if kind == "exc-instance":
        # an error that was collected, not raised (gather(return_exceptions=True))
        return LookupError("collected")
    if kind == "base-exc-instance":
        return SystemExit(7)
    if kind == "exc-class":
        return ValueError
    return {
        "0": 0, "0.0": 0.0, "False": False, "''": "", "[]": [], "()": (), "1": 1,
        "'x'": "x", "object": object(), "None": None, "{}": {},
    }[kind]


VALUE_KINDS = ["0", "0.0", "False", "''", "[]", "()", "1", "'x'", "object", "exc-instance",
               "exc-class", "unprintable", "huge-int"]


class Kit:
    """Builds callables from descriptors for one execution"""

    def __init__(self, env, runtime):
        self.env = env
        self.runtime = runtime
        #: objects that left payloads: id -> ("raise"|"return", object)
        self.left = {}
        #: every object a payload returned, per id (several calls of one callable)
        self.returned = {}
        self.sections = {"asyncio": 0, "trio": 0}

    # -- context -------------------------------------------------------------------
    def context(self, flavour: str):
        lt = self.env.sched.me()
        info = {"thread": lt.name if lt else "?"}
        try:
            info["loop"] = id(asyncio.get_running_loop())
        except RuntimeError:
            info["loop"] = None
        try:
            info["token"] = id(trio.lowlevel.current_trio_token())
        except RuntimeError:
            info["token"] = None
        return info

    # -- building ------------------------------------------------------------------
    def payload(self, desc):
        flavour = desc["flavour"]
        payload = {"asyncio": self._asyncio, "trio": self._trio,
                   "threading": self._threading}[flavour](desc)
        if desc.get("call_raises") and flavour != "threading":
            # a plain callable that fails when it is called, before any awaitable exists
            kit = self

            def failing_call(*args, **kwargs):
                kit.env.log("start", id=desc["id"], args=args, kwargs=kwargs,
                            **kit.context(flavour))
                exc = make_exception(desc["call_raises"])
                kit.left[desc["id"]] = ("raise", exc)
                kit.env.log("raising", id=desc["id"], kind=desc["call_raises"])
                raise exc

            failing_call.__qualname__ = failing_call.__name__ = "failing_call_%s" % desc["id"]
            return failing_call
        if desc.get("plain") and flavour != "threading":
            # a plain callable that does its first part synchronously and returns the awaitable
            kit = self

            def plain(*args, **kwargs):
                kit.env.log("plain-call", id=desc["id"], **kit.context(flavour))
                return payload(*args, **kwargs)

            plain.__qualname__ = plain.__name__ = "plain_%s" % desc["id"]
            return plain
        return payload

    def submit(self, desc, how="adopt", payload=None):
        """adopt / execute ``desc`` through the public API; returns what the call gave"""
        payload = payload if payload is not None else self.payload(desc)
        args, kwargs = tuple(desc.get("args", ())), dict(desc.get("kwargs", {}))
        flavour = FLAVOURS[desc["flavour"]]
        call = self.runtime.adopt if how == "adopt" else self.runtime.execute
        self.env.log(how + "-call", id=desc["id"])
        try:
            result = call(payload, *args, flavour=flavour, **kwargs)
        except BaseException as err:  # noqa: B036
            self.env.log(how + "-raised", id=desc["id"], exc=err)
            if isinstance(err, _abort_type()):
                raise
            return ("raised", err)
        self.env.log(how + "-returned", id=desc["id"], value=result)
        return ("returned", result)

    def service_class(self, desc):
        """A fresh @service class whose ``run`` is the payload"""
        from cobald.daemon.runners.service import service

        payload = self.payload(desc)
        flavour = desc["flavour"]
        if flavour == "threading":
            class Service:
                def run(self):
                    return payload()
        else:
            class Service:
                async def run(self):
                    return await payload()
        if desc.get("falsy"):
            # an (empty) container-like service: alive although it is falsy
            Service.__len__ = lambda self: 0
        Service.__qualname__ = Service.__name__ = "Service_%s" % desc["id"]
        shape = desc.get("shape")
        if shape == "cached":
            # a singleton: constructing it again gives the instance that exists already
            def __new__(cls, *args, **kwargs):
                if cls.__dict__.get("_instance") is None:
                    cls._instance = object.__new__(cls)
                return cls._instance

            Service.__new__ = __new__
        elif shape == "equal":
            # services that compare (and hash) by value: two equal instances are still two
            # services (a dataclass with unsafe_hash, say)
            Service.__eq__ = lambda self, other: type(other) is type(self)
            Service.__hash__ = lambda self: 11
        elif shape in ("redecorated", "subclass"):
            # derived from a class that is a service already - of another flavour and
            # decorated again, or of the same flavour and not decorated again
            names = sorted(FLAVOURS)
            other = names[(names.index(flavour) + 1) % len(names)]

            class Base:
                def run(self):
                    raise AssertionError("the run method of the base class was started")

            Base = service(flavour=FLAVOURS[other if shape == "redecorated" else flavour])(Base)
            Service = type(Service.__name__, (Base,), {"run": Service.run})
            if shape == "subclass":
                return Service
        return service(flavour=FLAVOURS[flavour])(Service)

    def service_instance(self, desc):
        """Call the service class of ``desc`` (made on first use): a (new) instance"""
        classes = self.env.shared.setdefault("service-classes", {})
        if desc["id"] not in classes:
            classes[desc["id"]] = self.service_class(desc)
        self.env.log("service-create", id=desc["id"])
        return classes[desc["id"]]()

    # -- step interpreters ------------------------------------------------------------
    def _started(self, desc, args, kwargs):
        self.env.log("start", id=desc["id"], args=args, kwargs=kwargs,
                     **self.context(desc["flavour"]))

    def _sync_step(self, desc, step):
        """Steps that are the same in every flavour; returns (handled, result)"""
        op = step[0]
        if op == "raise":
            exc = make_exception(step[1])
            self.left[desc["id"]] = ("raise", exc)
            self.env.log("raising", id=desc["id"], kind=step[1])
            raise exc
        if op == "adopt":
            self.submit(step[1], "adopt")
            return True
        if op == "block-thread":
            # a synchronous, blocking call inside the payload: stalls its whole thread
            self.env.log("blocking-thread", id=desc["id"])
            self.env.sleep(step[1])
            return True
        if op == "section-adopt":
            # adopt another payload from the middle of a synchronous section
            flavour = desc["flavour"]
            self.sections[flavour] += 1
            self.submit(step[1], "adopt")
            self.env.point("section")
            if self.sections[flavour] != 1:
                self.env.log("overlap", id=desc["id"], flavour=flavour,
                             counter=(1, self.sections[flavour]))
            self.sections[flavour] -= 1
            self.env.log("section", id=desc["id"], **self.context(flavour))
            return True
        if op == "adopt-many":
            # the very same callable adopted several times (no arguments): each is a payload
            payload = self.payload(step[1])
            for _ in range(step[2]):
                self.env.log("adopt-call", id=step[1]["id"])
                try:
                    result = self.runtime.adopt(payload, flavour=FLAVOURS[step[1]["flavour"]])
                except BaseException as err:  # noqa: B036
                    self.env.log("adopt-raised", id=step[1]["id"], exc=err)
                    if isinstance(err, _abort_type()):
                        raise
                else:
                    self.env.log("adopt-returned", id=step[1]["id"], value=result)
            return True
        if op == "execute-foreign-trio":
            # execute from a worker thread (trio.to_thread) of a trio run private to this thread
            async def main():
                await trio.to_thread.run_sync(lambda: self.submit(step[1], "execute"))

            trio.run(main)
            return True
        if op == "adopt-own-loop":
            # adopt from a thread that runs an event loop of its own
            async def inner():
                self.submit(step[1], "adopt")

            asyncio.run(inner())
            return True
        if op == "service-drop":
            keep = self.env.shared.setdefault("keep", [])
            if keep:
                keep.pop()
            self.env.log("service-drop")
            return True
        if op == "service":
            self.env.shared.setdefault("keep", []).append(self.service_instance(step[1]))
            return True
        if op == "call":
            self.env.shared[step[1]](self.env)
            return True
        if op == "log":
            self.env.log(step[1], id=desc["id"])
            return True
        return False

    def _section(self, desc):
        flavour = desc["flavour"]
        self.sections[flavour] += 1
        inside = self.sections[flavour]
        self.env.point("section")
        if inside != 1 or self.sections[flavour] != 1:
            self.env.log("overlap", id=desc["id"], flavour=flavour,
                         counter=(inside, self.sections[flavour]))
        self.sections[flavour] -= 1
        self.env.log("section", id=desc["id"], **self.context(flavour))

    def _cleanup_sync(self, desc):
        cleanup = desc.get("cleanup")
        if cleanup and cleanup[0] == "sync":
            for index in range(cleanup[1]):
                self.env.log("cleanup-step", id=desc["id"], index=index)
        if cleanup and cleanup[0] in ("sync-adopt", "shield-adopt"):
            self.submit(cleanup[-1], "adopt")
        if cleanup and cleanup[0] == "sync-set":
            # tells another payload, which waits for it in its own cleanup, that this one is done
            self.env.shared[cleanup[1]] = True

    def _asyncio(self, desc):
        kit = self

        async def payload(*args, **kwargs):
            kit._started(desc, args, kwargs)
            try:
                for step in desc.get("steps", ()):
                    op = step[0]
                    if kit._sync_step(desc, step):
                        continue
                    if op == "sleep":
                        await asyncio.sleep(step[1])
                    elif op == "wait-private":
                        # waits for something that nobody else refers to (a reply that
                        # never comes): only the task itself keeps the future alive
                        await asyncio.get_running_loop().create_future()
                    elif op == "wait-weak":
                        # waits for a reply; whoever sends it only knows the future weakly
                        import weakref

                        future = asyncio.get_running_loop().create_future()
                        kit.env.shared.setdefault(step[1], weakref.WeakSet()).add(future)
                        await future
                        del future
                    elif op == "forever":
                        while True:
                            await asyncio.sleep(step[1])
                            kit.env.log("beat", id=desc["id"])
                    elif op == "stubborn":
                        # finishes its current item first: absorbs the first cancellations
                        absorbed = 0
                        while True:
                            try:
                                await asyncio.sleep(step[2])
                                kit.env.log("beat", id=desc["id"])
                            except asyncio.CancelledError:
                                if absorbed >= step[1]:
                                    raise
                                absorbed += 1
                                kit.env.log("absorbed-cancel", id=desc["id"], count=absorbed)
                    elif op == "spin":
                        count = 0
                        while step[1] is None or count < step[1]:
                            await asyncio.sleep(0)
                            count += 1
                            kit.env.log("beat", id=desc["id"])
                    elif op == "section":
                        for _ in range(step[1]):
                            kit._section(desc)
                            await asyncio.sleep(0)
                    elif op == "return":
                        value = make_value(step[1])
                        kit.left[desc["id"]] = ("return", value)
                        kit.returned.setdefault(desc["id"], []).append(value)
                        return value
                    elif op == "forever-sections":
                        while True:
                            await asyncio.sleep(step[1])
                            kit.env.log("beat", id=desc["id"])
                            kit._section(desc)
                    elif op == "spin-adopt":
                        # keeps handing follow-up work to adopt(), on the loop's own thread
                        number = 0
                        while step[2] is None or number < step[2]:
                            kit.submit(dict(step[1], id="%s-%d" % (step[1]["id"], number)),
                                       "adopt")
                            number += 1
                            await asyncio.sleep(0)
                    elif op == "to-thread-call":
                        await asyncio.get_running_loop().run_in_executor(
                            None, lambda: kit.env.shared[step[1]](kit.env))
                    elif op == "repeat-adopt":
                        for number in range(step[3]):
                            kit.submit(dict(step[1], id="%s-%d" % (step[1]["id"], number)),
                                       "adopt")
                            await asyncio.sleep(step[2])
                    elif op == "repeat-execute":
                        while True:
                            kit.submit(step[1], "execute")
                            await asyncio.sleep(step[2])
                    elif op == "execute":
                        # a blocking call: from a coroutine of another flavour only
                        kit.submit(step[1], "execute")
                    else:
                        raise ValueError(step)
            except asyncio.CancelledError as err:
                if kit.left.get(desc["id"], (None, None))[1] is not err:
                    kit.env.log("cancelled", id=desc["id"], how="asyncio.CancelledError")
                raise
            finally:
                kit._cleanup_sync(desc)
                kit.env.log("cleanup-done", id=desc["id"])

        return self._watch_async(desc, payload)

    def _trio(self, desc):
        kit = self

        async def payload(*args, **kwargs):
            kit._started(desc, args, kwargs)
            try:
                for step in desc.get("steps", ()):
                    op = step[0]
                    if kit._sync_step(desc, step):
                        continue
                    if op == "sleep":
                        await trio.sleep(step[1])
                    elif op == "wait-private":
                        await trio.Event().wait()
                    elif op == "forever":
                        while True:
                            await trio.sleep(step[1])
                            kit.env.log("beat", id=desc["id"])
                    elif op == "spin":
                        count = 0
                        while step[1] is None or count < step[1]:
                            await trio.sleep(0)
                            count += 1
                            kit.env.log("beat", id=desc["id"])
                    elif op == "section":
                        for _ in range(step[1]):
                            kit._section(desc)
                            await trio.sleep(0)
                    elif op == "return":
                        value = make_value(step[1])
                        kit.left[desc["id"]] = ("return", value)
                        kit.returned.setdefault(desc["id"], []).append(value)
                        return value
                    elif op == "forever-sections":
                        while True:
                            await trio.sleep(step[1])
                            kit.env.log("beat", id=desc["id"])
                            kit._section(desc)
                    elif op == "spin-adopt":
                        number = 0
                        while step[2] is None or number < step[2]:
                            kit.submit(dict(step[1], id="%s-%d" % (step[1]["id"], number)),
                                       "adopt")
                            number += 1
                            await trio.sleep(0)
                    elif op == "to-thread-call":
                        # a blocking call handed to a helper thread, as trio asks for
                        await trio.to_thread.run_sync(
                            lambda: kit.env.shared[step[1]](kit.env))
                    elif op == "repeat-adopt":
                        for number in range(step[3]):
                            kit.submit(dict(step[1], id="%s-%d" % (step[1]["id"], number)),
                                       "adopt")
                            await trio.sleep(step[2])
                    elif op == "repeat-execute":
                        while True:
                            kit.submit(step[1], "execute")
                            await trio.sleep(step[2])
                    elif op == "execute":
                        kit.submit(step[1], "execute")
                    else:
                        raise ValueError(step)
            except trio.Cancelled as err:
                if kit.left.get(desc["id"], (None, None))[1] is not err:
                    kit.env.log("cancelled", id=desc["id"], how="trio.Cancelled")
                raise
            finally:
                cleanup = desc.get("cleanup")
                if cleanup and cleanup[0] in ("shield", "shield-adopt"):
                    with trio.CancelScope(shield=True):
                        await trio.sleep(cleanup[1])
                if cleanup and cleanup[0] == "shield-until":
                    # keeps draining until a payload of another flavour has finished
                    with trio.CancelScope(shield=True):
                        while not kit.env.shared.get(cleanup[1]):
                            await trio.sleep(0.05)
                kit._cleanup_sync(desc)
                kit.env.log("cleanup-done", id=desc["id"])

        return self._watch_async(desc, payload)

    def _watch_async(self, desc, payload):
        """Record exactly what leaves the coroutine (after the interpreter's conversions)"""
        kit = self

        async def watched(*args, **kwargs):
            try:
                result = await payload(*args, **kwargs)
            except BaseException as err:  # noqa: B036
                kind, original = kit.left.get(desc["id"], (None, None))
                if kind == "raise":
                    kit.left[desc["id"]] = ("raise", err)
                kit.env.log("left", id=desc["id"], how="raise", exc=err)
                raise
            kit.env.log("left", id=desc["id"], how="return", value=result)
            return result

        watched.__qualname__ = watched.__name__ = "payload_%s" % desc["id"]
        return watched

    def _threading(self, desc):
        kit = self

        def payload(*args, **kwargs):
            kit._started(desc, args, kwargs)
            try:
                for step in desc.get("steps", ()):
                    op = step[0]
                    if kit._sync_step(desc, step):
                        continue
                    if op == "sleep":
                        kit.env.sleep(step[1])
                    elif op == "forever":
                        while True:
                            kit.env.sleep(step[1])
                            kit.env.log("beat", id=desc["id"])
                    elif op == "spin":
                        count = 0
                        while step[1] is None or count < step[1]:
                            kit.env.sleep(0)
                            count += 1
                    elif op == "block":
                        kit.env.log("blocking", id=desc["id"])
                        threading.Event().wait()
                    elif op == "return":
                        value = make_value(step[1])
                        kit.left[desc["id"]] = ("return", value)
                        kit.returned.setdefault(desc["id"], []).append(value)
                        kit.env.log("left", id=desc["id"], how="return", value=value)
                        return value
                    elif op == "execute":
                        kit.submit(step[1], "execute")
                    elif op == "barrier":
                        # wait until step[2] payloads have arrived at the barrier step[1]
                        shared = kit.env.shared
                        shared[step[1]] = shared.get(step[1], 0) + 1
                        kit.env.sched.wait_until(
                            lambda: shared[step[1]] >= step[2], kind="barrier")
                    elif op == "repeat-adopt":
                        # (thread payloads) keep adopting copies of a payload: step[2] seconds
                        # apart, step[3] times
                        for number in range(step[3]):
                            kit.submit(dict(step[1], id="%s-%d" % (step[1]["id"], number)),
                                       "adopt")
                            kit.env.sleep(step[2])
                    elif op == "section":
                        for _ in range(step[1]):
                            kit.env.log("section", id=desc["id"],
                                        **kit.context("threading"))
                            kit.env.point("section")
                    else:
                        raise ValueError(step)
            except BaseException as err:  # noqa: B036
                if not isinstance(err, _abort_type()):
                    kit.env.log("left", id=desc["id"], how="raise", exc=err)
                raise
            kit.env.log("left", id=desc["id"], how="return", value=None)

        payload.__qualname__ = payload.__name__ = "payload_%s" % desc["id"]
        return payload


def _abort_type():
    from .sched import Abort

    return Abort


def flatten_causes(exc, limit=64):
    """Every exception reachable from ``exc`` through exception groups and ``__cause__``"""
    seen, todo = [], [exc]
    while todo and len(seen) < limit:
        item = todo.pop()
        if item is None or any(item is s for s in seen):
            continue
        seen.append(item)
        if isinstance(item, BaseExceptionGroup):
            todo.extend(item.exceptions)
        todo.append(item.__cause__)
    return seen


def leaves(exc):
    """The non-group exceptions inside an exception group (or the exception itself)"""
    if isinstance(exc, BaseExceptionGroup):
        out = []
        for sub in exc.exceptions:
            out.extend(leaves(sub))
        return out
    return [exc]
