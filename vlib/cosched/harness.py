"""cosched - glue shared by the checks that use the engine"""
from __future__ import annotations

import functools

from vlib.core import Acc, InfrastructureError

from .explore import explore_scenario, replay_choices


def shard(spec) -> Acc:
    """Explore one scenario completely (within its bound); convert to an accumulator"""
    # a recorded finding must not end the exploration of a scenario: something else may be
    # wrong on another schedule of it
    from vlib.core import load_known_findings

    spec = dict(spec, known_keys=sorted(load_known_findings(
        spec["module"].rsplit(".", 1)[-1].upper())))
    total = explore_scenario(spec)
    acc = Acc()
    acc.evaluations = total["executions"]
    acc.traces = total["executions"]
    acc.transitions = total["points"]
    acc.states = total["states"]
    for outcome in total["outcomes"]:
        acc.outcome((str(spec["params"]), outcome))
    # every explored choice list is distinct by construction; the ones that deviate from the
    # default schedule are the non-trivial ones
    acc.nontrivial_count = total["deviating"]
    for sample in total["samples"][:1]:
        if sample["choices"]:
            acc.samples.append(sample)
    if spec.get("part", (0, 1))[0] == 0:
        acc.count("scenarios")
    acc.count("diverged-prefixes", total["diverged"])
    acc.count("unstable-violations", len(total["unstable"]))
    acc.count("forks", total["forks"])
    if total["capped"]:
        acc.count("capped-scenarios")
    if total["stopped"]:
        acc.count("scenarios-stopped-at-first-counterexample")
    for kind, n in total["point_kinds"].items():
        acc.count("points:" + kind, n)
    for infra in total["infra"]:
        acc.count("infrastructure-errors")
        acc.samples.append({"infrastructure": infra})
    for violation in total["violations"]:
        acc.violation(violation["key"], violation["what"],
                      {"spec": spec, "choices": violation["choices"]})
    return acc


def core_scenarios(scenario_params):
    """The scenarios of the quick tier, as a lookup for the thorough tier: those get the
    thorough deviation bound, the scenarios only the thorough tier adds get the quick one
    (a full product at the higher bound is out of reach: see DESIGN.md section 9)"""
    def norm(params):
        return repr(sorted((k, repr(v)) for k, v in params.items()
                           if k not in ("sigint_cost", "_tmp")))

    quick = {norm(params) for params in scenario_params("quick")}
    return lambda params: norm(params) in quick


def split(spec, parts):
    """The same scenario as ``parts`` shards, each exploring a share of the first deviations"""
    import copy

    out = []
    for part in range(parts):
        piece = copy.deepcopy(spec)
        piece["part"] = (part, parts)
        out.append(piece)
    return out


def line_variants(specs, select, bound=1, budget=20000):
    """Line-granularity variants (a scheduling point before every source line of
    cobald/daemon/runners/*.py, in every thread) of the specs that ``select`` picks"""
    import copy
    import os

    from vlib.core import REPO

    out = []
    for spec in specs:
        if not select(spec["params"]):
            continue
        variant = copy.deepcopy(spec)
        variant["params"] = dict(variant["params"], _granularity="line")
        variant["bound"] = bound
        variant["budget"] = budget
        variant["opts"].update(
            line_points=True, max_points=60000,
            line_package=os.path.join(REPO, "src", "cobald", "daemon", "runners"))
        out.append(variant)
    return out


def finish(ctx, specs, rule, bounds, assumptions=()):
    counters = ctx.acc.counters
    # the maximum is not additive
    capped = counters.get("capped-scenarios", 0)
    ctx.meta.update(
        rule=rule,
        exhaustive=capped == 0 and counters.get("diverged-prefixes", 0) == 0,
        bounds=dict(bounds, scenarios=len(specs),
                    deviations="preemption at a scheduling point, non-default wake-up order, "
                               "trio batch order reversed, environment event (SIGINT) now"
                               + ("" if ctx.quick else
                                  ", TIME (a timer due within 0.3 virtual seconds fires before "
                                  "the running thread continues)")),
        caps_hit=(["%d scenarios hit the per-scenario execution budget" % capped] if capped else [])
        + (["%d choice prefixes diverged on replay and were not explored"
            % counters["diverged-prefixes"]] if counters.get("diverged-prefixes") else []),
    )
    ctx.assumptions += [
        "scheduling points at synchronisation operations (DESIGN.md 2.1); the substrate "
        "(asyncio Task/Future, trio, concurrent.futures) is trusted between them",
        "virtual time; SIGINT is delivered at main-thread scheduling points",
    ] + list(assumptions)
    if counters.get("infrastructure-errors"):
        raise InfrastructureError("%d executions had harness errors: %r" % (
            counters["infrastructure-errors"],
            [s for s in ctx.acc.samples if isinstance(s, dict) and "infrastructure" in s][:3]))


def replay(data):
    result = replay_choices(data["spec"], data["choices"])
    if result.get("diverged"):
        return "replay diverged: %r" % (result["errors"],)
    for line in result["log"]:
        print("   ", line)
    return "; ".join("%s: %s" % (k, w) for k, w in result["violations"]) or None


class MetaAdapter:
    """Lets the kit drive a bare MetaRunner through the adopt / execute vocabulary"""

    def __init__(self, meta):
        self.meta = meta
        self.running = meta.running

    def adopt(self, payload, *args, flavour, **kwargs):
        if args or kwargs:
            payload = functools.partial(payload, *args, **kwargs)
        return self.meta.register_payload(payload, flavour=flavour)

    def execute(self, payload, *args, flavour, **kwargs):
        if args or kwargs:
            payload = functools.partial(payload, *args, **kwargs)
        return self.meta.run_payload(payload, flavour=flavour)
