"""
cosched - the seams through which the scheduler controls the unmodified runtime.

Everything is installed from outside for the duration of one execution and removed
afterwards; nothing in /repo is changed.  See the table in DESIGN.md section 2.1.
"""
from __future__ import annotations

import asyncio
import asyncio.base_events
import concurrent.futures.thread as cf_thread
import gc
import logging
import queue
import sys
import threading
import time

import trio
import trio._core._io_epoll as trio_epoll
import trio._core._run as trio_run_module
import trio._core._thread_cache as trio_thread_cache
import trio._threads as trio_threads
from trio._core._entry_queue import TrioToken

from . import sched as S

REAL = {
    "threading.Lock": threading.Lock,
    "threading._allocate_lock": threading._allocate_lock,
    "threading.Event": threading.Event,
    "threading.Thread": threading.Thread,
    "queue.SimpleQueue": queue.SimpleQueue,
    "time.sleep": time.sleep,
    "trio.run": trio.run,
    "trio_run_module.run": trio_run_module.run,
    "get_events": trio_epoll.EpollIOManager.get_events,
    "_r": trio_run_module._r,
    "_send_message_to_trio": trio_threads._send_message_to_trio,
    "_ALLOW_DETERMINISTIC_SCHEDULING": trio_run_module._ALLOW_DETERMINISTIC_SCHEDULING,
    "Deadlines.add": trio_run_module.Deadlines.add,
    "_global_shutdown_lock": cf_thread._global_shutdown_lock,
    "excepthook": threading.excepthook,
    "run_sync_soon": TrioToken.run_sync_soon,
    "thread_cache.Lock": trio_thread_cache.Lock,
    "thread_cache.Thread": trio_thread_cache.Thread,
    "thread_cache.THREAD_CACHE": trio_thread_cache.THREAD_CACHE,
}


# ---------------------------------------------------------------------------------------
# asyncio


class _VSelector:
    """Stands in for the selector of the loop: blocks in the scheduler"""

    def __init__(self, loop):
        self._loop = loop

    def select(self, timeout=None):
        sched, loop = S.ACTIVE, self._loop
        if sched is None or sched.me() is None:
            return []
        if timeout is not None and timeout <= 0:
            sched.advance(sched.spin_time)
            sched.point("loop-iter", yielding=sched.spin_time > 0)
            return []
        deadline = None if timeout is None else sched.now + timeout
        sched.wait_until(lambda: bool(loop._ready), deadline, kind="loop-select")
        return []

    def close(self):
        pass


class VTask(asyncio.Task):
    """A task that hashes by its creation number: sets of tasks - ``asyncio.all_tasks`` in
    the final sweep of ``asyncio.run``, the runner's own set of payload tasks - iterate in
    an order that does not depend on memory addresses (which differ from run to run)"""

    _cosched_counter = [0]

    def __init__(self, coro, **kwargs):
        # the base class hashes the task while it registers it: number it first
        VTask._cosched_counter[0] += 1
        self._cosched_seq = VTask._cosched_counter[0]
        super().__init__(coro, **kwargs)

    def __hash__(self):
        return self._cosched_seq


def _task_factory(loop, coro, **kwargs):
    return VTask(coro, loop=loop, **kwargs)


class VLoop(asyncio.base_events.BaseEventLoop):
    """The stock event loop machinery on top of virtual time and a scheduler wait"""

    def __init__(self):
        super().__init__()
        self._selector = _VSelector(self)
        self.set_task_factory(_task_factory)

    def time(self):
        sched = S.ACTIVE
        return sched.now if sched is not None else 0.0

    def _process_events(self, event_list):
        pass

    def _write_to_self(self):
        pass

    def call_soon_threadsafe(self, callback, *args, context=None):
        sched = S.ACTIVE
        if sched is not None:
            sched.point("call_soon_threadsafe")
        return super().call_soon_threadsafe(callback, *args, context=context)


class VPolicy(asyncio.events.BaseDefaultEventLoopPolicy):
    _loop_factory = VLoop


# ---------------------------------------------------------------------------------------
# trio


class VClock(trio.abc.Clock):
    def start_clock(self):
        pass

    def current_time(self):
        sched = S.ACTIVE
        return sched.now if sched is not None else 0.0

    def deadline_to_sleep_time(self, deadline):
        sched = S.ACTIVE
        return deadline - (sched.now if sched is not None else 0.0)


def _trio_run(async_fn, *args, **kwargs):
    kwargs.setdefault("clock", VClock())
    return REAL["trio_run_module.run"](async_fn, *args, **kwargs)


def _get_events(self, timeout):
    sched = S.ACTIVE
    max_events = max(1, len(self._registered))
    if sched is None or sched.me() is None:
        return self._epoll.poll(min(timeout, 0.01), max_events)
    events = self._epoll.poll(0, max_events)
    if events:
        return events
    if timeout <= 0:
        sched.advance(sched.spin_time)
        sched.point("trio-iter", yielding=sched.spin_time > 0)
        return self._epoll.poll(0, max_events)
    found = []

    def readable():
        # registrations are one-shot: an event reported once must not be lost, whoever
        # evaluated this predicate
        if not found:
            found.extend(self._epoll.poll(0, max_events))
        return bool(found)

    sched.wait_until(readable, sched.now + timeout, kind="trio-wait")
    return found


class _BatchCoin:
    """Owns the order of trio's run batches.

    trio is switched to its deterministic-scheduling mode (batch sorted by task creation
    counter, then ``_r.shuffle``); the shuffle is a choice point: keep or reverse.  This
    also removes the dependence on the iteration order of trio's id-hashed task sets."""

    def __init__(self, real):
        self._real = real

    def shuffle(self, batch):
        sched = S.ACTIVE
        if sched is None or sched.me() is None or sched.aborting or len(batch) < 2:
            return
        # trio pops from the end: keep = lowest counter first
        batch.reverse()
        if sched.choice("trio-batch", ["keep", "reverse"], [0, 1]) == 1:
            batch.reverse()

    def random(self):
        return 1.0

    def __getattr__(self, name):
        return getattr(self._real, name)


_deadline_counter = [0]


def _deadlines_add(self, deadline, cancel_scope):
    # stock trio breaks ties between equal deadlines by id(cancel_scope); use creation order
    from heapq import heappush

    _deadline_counter[0] += 1
    heappush(self._heap, (deadline, _deadline_counter[0], cancel_scope))
    self._active += 1


def _run_sync_soon(self, sync_fn, *args, idempotent=False):
    sched = S.ACTIVE
    if sched is not None and sched.me() is not None:
        sched.point("trio-run_sync_soon")
    return REAL["run_sync_soon"](self, sync_fn, *args, idempotent=idempotent)


def _send_message_to_trio(trio_token, message_to_trio):
    sched = S.ACTIVE
    if sched is not None and sched.me() is not None:
        # the reply queue is created by an attrs factory captured at import time
        object.__setattr__(message_to_trio, "queue", S.AQueue())
        sched.point("trio-from_thread")
    return REAL["_send_message_to_trio"](trio_token, message_to_trio)


# ---------------------------------------------------------------------------------------
# time


def _sleep(seconds):
    sched = S.ACTIVE
    if sched is None or sched.me() is None:
        return REAL["time.sleep"](seconds)
    sched.sleep(seconds)


# ---------------------------------------------------------------------------------------
# line-level scheduling points (sys.monitoring)

_TOOL = 4
_line_codes = []


def _code_objects(code):
    yield code
    for const in code.co_consts:
        if hasattr(const, "co_code"):
            yield from _code_objects(const)


def _line_callback(code, line):
    sched = S.ACTIVE
    if sched is not None and sched.line_points and not sched.aborting:
        if sched.me() is not None:
            sched.point("line:%s:%d" % (code.co_filename.rsplit("/", 1)[-1], line))
    return None


def _jump_callback(code, offset, destination):
    # a backward jump is the end of one loop iteration (also inside comprehensions and
    # generator expressions, which are a single source line): iterating a container that
    # another thread changes must be interruptible between two items
    if destination < offset:
        sched = S.ACTIVE
        if sched is not None and sched.line_points and not sched.aborting:
            if sched.me() is not None:
                sched.point("loop:%s:%s" % (code.co_filename.rsplit("/", 1)[-1], code.co_name))
    return None


def enable_line_points(package_dir: str):
    """A scheduling point before every source line of the python files below ``package_dir``"""
    import os

    mon = sys.monitoring
    if mon.get_tool(_TOOL) is None:
        mon.use_tool_id(_TOOL, "cosched")
        mon.register_callback(_TOOL, mon.events.LINE, _line_callback)
        mon.register_callback(_TOOL, mon.events.JUMP, _jump_callback)
    for name in sorted(os.listdir(package_dir)):
        if not name.endswith(".py"):
            continue
        path = os.path.join(package_dir, name)
        for module in list(sys.modules.values()):
            if getattr(module, "__file__", None) == path:
                break
        else:
            continue
        seen = set()
        for obj in list(vars(module).values()):
            candidates = [obj]
            if isinstance(obj, type) and obj.__module__ == module.__name__:
                candidates = list(vars(obj).values())
            for cand in candidates:
                cand = getattr(cand, "__func__", cand)
                cand = getattr(cand, "__wrapped__", cand)
                if isinstance(cand, property):
                    cand = cand.fget
                func_code = getattr(cand, "__code__", None)
                if func_code is None or func_code.co_filename != path:
                    continue
                for code in _code_objects(func_code):
                    if code not in seen:
                        seen.add(code)
                        mon.set_local_events(_TOOL, code, mon.events.LINE | mon.events.JUMP)
                        _line_codes.append(code)
    # the weak set that holds the service units is shared between threads: its own loops
    # (iteration, guard, add/remove) are interruptible too
    import _weakrefset

    for holder in (_weakrefset.WeakSet, _weakrefset._IterationGuard):
        for attr in vars(holder).values():
            func_code = getattr(attr, "__code__", None)
            if func_code is None:
                continue
            for code in _code_objects(func_code):
                mon.set_local_events(_TOOL, code, mon.events.LINE | mon.events.JUMP)
                _line_codes.append(code)


def disable_line_points():
    mon = sys.monitoring
    for code in _line_codes:
        try:
            mon.set_local_events(_TOOL, code, 0)
        except ValueError:
            pass
    _line_codes.clear()


# ---------------------------------------------------------------------------------------


class _Quiet(logging.Handler):
    def emit(self, record):
        pass


_executions = [0]


def _leftover_units() -> bool:
    try:
        from cobald.daemon.runners.service import ServiceUnit

        return bool(ServiceUnit.units())
    except Exception:  # noqa: B902 - fail-soft: only an optimisation
        return True


def _collect_if_needed():
    """Service units of an earlier execution must be gone before the next one starts.

    Reference counting frees them at once unless they sit in a cycle; the (slow) cyclic
    collector is only run when a unit is still registered, and every 50 executions."""
    _executions[0] += 1
    # a Python configuration stays in sys.modules for the life time of a daemon process and
    # keeps its pipeline alive: here one process runs many daemons, one after the other
    for name in [name for name in sys.modules if name.startswith("<cobald config ")]:
        module = sys.modules.pop(name, None)
        if module is not None:
            module.__dict__.clear()
    if _executions[0] % 50 == 0 or _leftover_units():
        gc.collect()


_unit_patch = []


def _number_service_units():
    """``ServiceUnit.units()`` is a *set* of units and the polling loop starts them in its
    iteration order, which follows memory addresses.  Number the units at creation and hash
    by that number, so that the order is the creation order in every execution (fail-soft;
    left alone if the class brings its own __hash__ / __eq__)."""
    try:
        from cobald.daemon.runners.service import ServiceUnit

        if "__hash__" in ServiceUnit.__dict__ or "__eq__" in ServiceUnit.__dict__:
            return
        original = ServiceUnit.__init__
        counter = [0]

        def __init__(self, *args, **kwargs):
            counter[0] += 1
            self._cosched_seq = counter[0]
            original(self, *args, **kwargs)

        ServiceUnit.__init__ = __init__
        ServiceUnit.__hash__ = lambda self: getattr(self, "_cosched_seq", 0)
        _unit_patch.append((ServiceUnit, original))
    except Exception:  # noqa: B902
        pass


def _restore_service_units():
    while _unit_patch:
        cls, original = _unit_patch.pop()
        cls.__init__ = original
        try:
            del cls.__hash__
        except AttributeError:
            pass


_guard_cells = []


def _control_accept_guard():
    """The lock of ``exclusive`` around ServiceRunner.accept is created at import time (a
    real lock): a change that makes it *block* would hang the harness for real.  Swap it for
    a scheduler-aware lock for the duration of the execution (fail-soft: if the decorator is
    built differently nothing happens)."""
    try:
        from cobald.daemon.runners.service import ServiceRunner

        function = ServiceRunner.accept
        for cell in getattr(function, "__closure__", None) or ():
            try:
                content = cell.cell_contents
            except ValueError:
                continue
            if isinstance(content, S.REAL_LOCK_TYPE) and not content.locked():
                _guard_cells.append((cell, content))
                cell.cell_contents = S.ALock()
    except Exception:  # noqa: B902
        pass


def _restore_accept_guard():
    while _guard_cells:
        cell, content = _guard_cells.pop()
        try:
            cell.cell_contents = content
        except Exception:  # noqa: B902
            pass


def install(scheduler: S.Scheduler):
    assert S.ACTIVE is None, "one execution at a time"
    _collect_if_needed()
    gc.disable()
    threading.Lock = S.ALock
    threading._allocate_lock = S.ALock
    threading.Event = S.AEvent
    threading.Thread = S.AThread
    queue.SimpleQueue = S.AQueue
    time.sleep = _sleep
    cf_thread._global_shutdown_lock = S.ALock()
    trio.run = _trio_run
    trio_run_module.run = _trio_run
    trio_epoll.EpollIOManager.get_events = _get_events
    trio_run_module._r = _BatchCoin(REAL["_r"])
    trio_run_module._ALLOW_DETERMINISTIC_SCHEDULING = True
    trio_run_module.Deadlines.add = _deadlines_add
    _deadline_counter[0] = 0
    S.AThread._cosched_counter[0] = 0
    VTask._cosched_counter[0] = 0
    trio_threads._send_message_to_trio = _send_message_to_trio
    TrioToken.run_sync_soon = _run_sync_soon
    # trio.to_thread worker threads: controlled, and a fresh cache per execution (the
    # stock cache keeps idle OS threads alive across runs)
    trio_thread_cache.Lock = S.ALock
    trio_thread_cache.Thread = S.AThread
    trio_thread_cache.THREAD_CACHE = trio_thread_cache.ThreadCache()
    threading.excepthook = lambda args: None
    asyncio.set_event_loop_policy(VPolicy())
    _control_accept_guard()
    _number_service_units()
    S.ACTIVE = scheduler


def uninstall():
    S.ACTIVE = None
    _restore_accept_guard()
    _restore_service_units()
    threading.Lock = REAL["threading.Lock"]
    threading._allocate_lock = REAL["threading._allocate_lock"]
    threading.Event = REAL["threading.Event"]
    threading.Thread = REAL["threading.Thread"]
    queue.SimpleQueue = REAL["queue.SimpleQueue"]
    time.sleep = REAL["time.sleep"]
    cf_thread._global_shutdown_lock = REAL["_global_shutdown_lock"]
    trio.run = REAL["trio.run"]
    trio_run_module.run = REAL["trio_run_module.run"]
    trio_epoll.EpollIOManager.get_events = REAL["get_events"]
    trio_run_module._r = REAL["_r"]
    trio_run_module._ALLOW_DETERMINISTIC_SCHEDULING = REAL["_ALLOW_DETERMINISTIC_SCHEDULING"]
    trio_run_module.Deadlines.add = REAL["Deadlines.add"]
    trio_threads._send_message_to_trio = REAL["_send_message_to_trio"]
    TrioToken.run_sync_soon = REAL["run_sync_soon"]
    trio_thread_cache.Lock = REAL["thread_cache.Lock"]
    trio_thread_cache.Thread = REAL["thread_cache.Thread"]
    trio_thread_cache.THREAD_CACHE = REAL["thread_cache.THREAD_CACHE"]
    threading.excepthook = REAL["excepthook"]
    asyncio.set_event_loop_policy(None)
    gc.enable()
