#!/venv/bin/python
"""Regenerate MANIFEST.json from the table below (run after adding / removing a check)."""
import json
import os

VERIF = os.path.dirname(os.path.abspath(__file__))

ENGINES = {
    "cosched": "stateless schedule exploration (iterative preemption/deviation bounding) of the "
               "unmodified runtime: real asyncio loop machinery, real trio.run, real payload "
               "threads under a baton scheduler with virtual time",
    "trioclock": "exhaustive enumeration of timed environment histories against the real "
                 "service run() loops under trio's virtual clock",
    "smallscope": "explicit-state BFS over operation histories / bounded-exhaustive input "
                  "enumeration of the real sequential code against reference models",
}

# id: (engine, technique, level text, level note, design ref)
COSCHED_NOTE = (
    "Trusted: the seams of DESIGN.md 2.1 (scheduler-aware Lock/Event/Thread/SimpleQueue, "
    "selector-less event loop, trio clock/epoll/batch order) behave like the originals; "
    "scheduling points at synchronisation operations only (sub-operation interleavings of "
    "plain attribute accesses are covered by the line-level mode where a check says so); "
    "values and scenario shapes outside the stated product are not covered."
)

CHECKS = {
    "C01": (
        "cosched",
        "stateless exhaustive schedule exploration of the real runtime with iterative "
        "deviation bounding",
        "Each of ~700 scenarios (flavour x failure kind incl. falsy returns, unprintable values and BaseExceptions "
        "x registration path x failure instant x bystanders x double failures) is run on the "
        "unmodified ServiceRunner/MetaRunner/runners under every schedule with at most 1 "
        "(quick) / 2 (thorough) deviations from the default schedule (preemptions at "
        "synchronisation operations, wake-up order, trio batch order), in virtual time; the "
        "oracle checks how accept() ended (raised RuntimeError whose cause leads to the very "
        "object that left the payload; never returns; never keeps running).",
        COSCHED_NOTE,
        "DESIGN.md section 2.1 and section 4, C01",
    ),
    "C02": (
        "cosched",
        "stateless exhaustive schedule exploration of the real runtime with iterative "
        "deviation bounding",
        "Termination trigger (failure per flavour, SIGINT, shutdown(), MetaRunner.stop()) x "
        "population of running coroutine payloads (sleeping, spinning, adopted from another "
        "payload, adopted while the trigger fires; synchronous and shielded cleanup) x blocked "
        "thread payloads, each under every schedule within 1 (quick) / 2 (thorough) "
        "deviations, the SIGINT arrival point being one of the explored choices. Oracle on "
        "the payloads' own event log: cancelled through the framework's exception, cleanup "
        "finished before the run call ended, no step afterwards, run call ended.",
        COSCHED_NOTE,
        "DESIGN.md section 2.1 and section 4, C02",
    ),
    "C03": (
        "cosched",
        "stateless exhaustive schedule exploration of the real runtime with iterative "
        "deviation bounding",
        "Submitting context (outside thread, thread / asyncio / trio payload) x target flavour "
        "x adopt or service creation x argument tuples/dicts x submission time, queued payloads "
        "and services 0..2 per flavour, pairs of concurrent submitters, and adopt racing a "
        "shutdown whose cleanup window is held open by a shielded payload; every schedule "
        "within 1 (quick) / 2 (thorough) deviations over >= 5 polling cycles. Oracle from the "
        "payloads' own start events: exactly once, exact arguments, right runner context; "
        "adopt returns None and never raises while cleanup is in progress.",
        COSCHED_NOTE,
        "DESIGN.md section 2.1 and section 4, C03",
    ),
    "C04": (
        "smallscope",
        "bounded-exhaustive enumeration of chains, groupings, curry splits and constructor "
        "signatures against hand nesting and an independent call binder",
        "Chains of up to 5 (quick) / 6 (thorough) recording elements under every "
        "parenthesisation of >>, three tail forms and every split of each element's arguments "
        "over curry calls, compared with hand-nested constructor calls (construction log and "
        "object graph); every constructor signature of a small grammar x role x plain / "
        "@service x every argument list x every split over two calls, and every shipped "
        "template owner, compared with an independent binder (TypeError at supply time iff the "
        "arguments can never bind); the binder itself is validated exhaustively against real "
        "constructor calls.",
        "Trusted: the reference binder (validated in-bounds against real calls) and the hand "
        "nesting; signatures outside the grammar (positional-only parameters, more than 3 "
        "parameters), longer chains and other argument values are not covered; for n >= 3 the "
        "argument variants are complete at one focus position at a time.",
        "DESIGN.md section 4, C04",
    ),
    "C05": (
        "smallscope",
        "bounded-exhaustive enumeration of generated YAML documents through the real loader "
        "against the pipeline the document describes",
        "YAML text (written by an own emitter, block and flow style) for pipelines of 1-4 "
        "(quick) / 1-5 (thorough) elements with every assignment of the syntactic forms (!Tag "
        "mapping / sequence / bare, __type__ mapping, tail with __args__) to positions, "
        "argument values from scalars, nested lists and mappings, lazily and eagerly evaluated "
        "nested tags, and a raising constructor at every position; loaded through the real "
        "load(path) with recording plugin classes discovered through a real entry-point "
        "directory, and through load_pipeline. Oracle: n objects in order, each target is the "
        "next object, constructed once, last to first, exactly the configured arguments (after "
        "the document is fully loaded), equal to the >> pipeline; a failing constructor makes "
        "loading raise.",
        "Trusted: the YAML text writer and the recording plugin classes; value kinds are "
        "rotated over positions rather than fully multiplied for n >= 3; non-tail __type__ "
        "mappings carry keyword items only.",
        "DESIGN.md section 4, C05",
    ),
    "C06": (
        "smallscope",
        "explicit-state BFS over operation histories of the real Standardiser against a "
        "reference computation",
        "For every constructor combination of a parameter grid (incl. infinite and fractional "
        "limits; rejected combinations are checked to be exactly the documented ones) and "
        "several supplies, breadth-first search over all histories of depth 3 (quick) / 4 "
        "(thorough) of demand writes (ints and floats), += 1, reads, supply changes and outside "
        "writes; after every transition the forwarded demand is compared with the limits and "
        "with a reference (floor to granule, clamp by supply window, clamp by min/max), the "
        "read-back with the limits and the one-granule distance, pass-through properties with "
        "the pool's.",
        "Trusted: the reference computation (a few lines, documented priority order); binary "
        "exact granules and values; for granularity 1 the rounding clause is checked on "
        "integral demands only; other magnitudes and longer histories are not covered.",
        "DESIGN.md section 4, C06",
    ),
    "C07": (
        "smallscope",
        "bounded-exhaustive state grid plus explicit-state BFS over operation histories of the "
        "real composites against sums recomputed from the children",
        "Uniform and weighted composites (weight = supply / utilisation / allocation) over "
        "every ordered tuple of 0-3 settable children from a 5x3x3 attribute grid (incl. 0, "
        "1e-100, 1e100) with every demand write (thorough: every pair of writes), and BFS to "
        "depth 3 (quick) / 4 (thorough) over histories of writes, child attribute changes, "
        "children appended and removed. Oracle after every operation: right after a write the "
        "children's demands sum to D (relative 1e-9), each share is D*w/sum(w) (equal shares "
        "for uniform / zero total weight) within [0, D], D reads back exactly; always supply = "
        "sum, utilisation and allocation within the children's range except the documented "
        "fallbacks.",
        "Trusted: children whose attributes do not react to a demand write; magnitudes chosen "
        "so that no intermediate overflows (asserted); for the weighted composite only the "
        "range, not the exact weighted mean, is required.",
        "DESIGN.md section 4, C07",
    ),
    "C08": (
        "smallscope",
        "bounded-exhaustive enumeration of pool states, parameters, rule / slave tables in "
        "every declaration order and step sequences against the property's own arithmetic",
        "LinearController / RelativeSupplyController.regulate over a grid of pool states with "
        "values on, just below and just above every threshold x all accepted parameter "
        "combinations x sequences of 1-3 steps; Stepwise rule tables with 0-3 thresholds in "
        "every declaration order, one iteration of the real run() per step under the virtual "
        "trio clock; DemandSwitch with 0-3 (threshold, controller) pairs in every order and "
        "recording sub-controllers. Exact arithmetic (Fractions on dyadic values) decides "
        "'exactly rate x interval'.",
        "Trusted: the oracle's reading of the statement (both Linear conditions holding: only "
        "the bound is required); supply finite and >= 0; thresholds distinct; other values are "
        "not covered.",
        "DESIGN.md section 4, C08",
    ),
    "C09": (
        "trioclock",
        "exhaustive enumeration of timed environment histories and same-instant batch orders "
        "against the real run() loops under trio's virtual clock",
        "Every shipped periodic service x period x run duration x all environment histories up "
        "to depth 2 (quick) / 3 (thorough) with action times before, on and after period "
        "boundaries, each under every order of the service and the environment when they wake "
        "at the same virtual instant (trio's batch order is owned); the real run() coroutine "
        "runs in a real trio.run with MockClock. Oracle: a step at t0 and exactly one per "
        "period, Linear's rate bound over every span, Buffer forwards only at boundaries and "
        "then holds the last written value, FactoryPool adjusts once per interval, nothing but "
        "the injected cancellation leaves run().",
        "Trusted: trio's MockClock and scheduler; one fixed parameter set per service; eps = "
        "T/4; longer histories and other parameters are not covered.",
        "DESIGN.md section 2.2 and section 4, C09",
    ),
    "C10": (
        "cosched",
        "stateless exhaustive schedule exploration of the real runtime with iterative "
        "deviation bounding",
        "Calling context (outside thread, thread payload, coroutine payload of another "
        "flavour) x target flavour x outcome (None, falsy and fresh objects, Exception "
        "subclasses) x arguments, and sequences of 2-3 execute calls, next to one sleeping "
        "bystander per flavour; every schedule within 1 (quick) / 2 (thorough) deviations. "
        "Oracle: ran exactly once with exactly the arguments in the flavour's context, the "
        "caller got the identical object / exception, bystanders keep beating and are not "
        "cancelled, a later shutdown() ends accept() normally.",
        COSCHED_NOTE,
        "DESIGN.md section 2.1 and section 4, C10",
    ),
    "C11": (
        "cosched",
        "stateless exhaustive schedule exploration of the real runtime with iterative "
        "deviation bounding; overlap detector with a scheduling point inside every section",
        "For each coroutine flavour every multiset (size 2, thorough also 3) of payload sources "
        "(queued, adopted from outside / a thread payload / the other coroutine flavour, "
        "service, executed from outside / a thread / the other flavour) next to blocked thread "
        "payloads; every payload repeatedly enters a synchronous section holding a scheduling "
        "point, so two same-flavour payloads on different threads would be interleaved inside "
        "it by some explored schedule. Oracle: no overlap, one thread / loop / trio token per "
        "flavour, thread payloads elsewhere, all sections complete while threads block.",
        COSCHED_NOTE,
        "DESIGN.md section 2.1 and section 4, C11",
    ),
    "C12": (
        "cosched",
        "stateless exhaustive schedule exploration of the real runtime with iterative "
        "deviation bounding",
        "Histories of one or two ServiceRunner instances plus a final fresh one: accept on the "
        "main or a second thread, ended by shutdown() from an outside thread or a thread "
        "payload, by SIGINT or by a failing payload of each flavour, at several instants after "
        "`running`, with populations (none, sleeping coroutines, shielded cleanup, blocked "
        "thread, concurrent submitter) and a concurrent accept of another instance; every "
        "schedule within 1 (quick) / 2 (thorough) deviations. Oracle: the concurrent accept "
        "raises RuntimeError and disturbs nothing, shutdown() returns and accept() returns "
        "normally within accept_delay + cleanup + 1 virtual seconds, and after every kind of "
        "end the next runner starts accepting.",
        COSCHED_NOTE,
        "DESIGN.md section 2.1 and section 4, C12",
    ),
    "C13": (
        "cosched",
        "stateless exhaustive schedule exploration of the real cli_run() with iterative "
        "deviation bounding; real daemon processes as conformance binding",
        "Generated configurations (YAML with !Tag / __type__ mixtures and optional logging "
        "section, Python modules with >>) x pipeline shape x service flavour x end (SIGINT at "
        "every explored point, failing service by raise / return, eight kinds of "
        "configuration error) run through the real cli_run() - CLI parsing, logging set-up, "
        "entry-point discovery of the recording plugin classes, config loading, ServiceRunner "
        "- under every schedule within 1 (quick) / 2 (thorough) deviations. Oracle: objects "
        "constructed inside the running loop, each service started once and beating until "
        "the signal, cancelled by it, exit status 0; errors and failing services give a "
        "non-zero status and an ERROR record; never up-but-idle. 9-18 real `python -m "
        "cobald.daemon` processes must agree.",
        COSCHED_NOTE + " Real signal timing inside an OS process cannot be enumerated; the "
        "process runs bind the in-process verdict for one signal time per outcome class.",
        "DESIGN.md section 2.1 and section 4, C13",
    ),
    "C14": (
        "smallscope",
        "bounded-exhaustive enumeration of plugin sets, constraint graphs, required flags and "
        "configuration mappings through the real section-plugin loading",
        "Plugin sets of 0-3 named plugins plus one absent name x every assignment of before / "
        "after relations among them (acyclic ones; quick: all for <= 2 plugins, <= 2 relations "
        "for 3; thorough: all 3^9) x required flags x digest results x every configuration "
        "mapping over the plugins' sections, an unknown section and logging; the seam is the "
        "entry-point listing only (fake entry points, bound by cases through a real dist-info "
        "directory), SectionPlugin.load / load_section_plugins / load_configuration are real. "
        "Oracle: unknown section -> ConfigurationError before any digest; missing required "
        "section -> ConfigurationError; otherwise each present section digested exactly once "
        "with the identical object, results kept, call order satisfies every constraint "
        "between installed plugins, constraints naming the absent plugin change nothing.",
        "Trusted: fake entry points behave like real ones (a disagreement between the two "
        "routes is a harness error); `before` read as in SectionPlugin.load's documentation; "
        "cyclic constraint graphs are outside the property.",
        "DESIGN.md section 4, C14",
    ),
    "C15": (
        "smallscope",
        "explicit-state BFS over operation histories of the real FactoryPool, each adjustment "
        "one iteration of the real run() under trio's virtual clock; seeded walks as a "
        "separately reported supplement",
        "54 scenarios (13 initial child sets x 4 factories of children with varying initial "
        "demand, plus two with demands of the order 10**9) x all histories to depth 5 (quick) / 7 (thorough) of demand writes, child "
        "supply / utilisation changes, children disabling themselves, dropped references to "
        "released children and adjustment cycles (the real run() loop body, exactly once, under "
        "MockClock); states deduplicated by the fields the implementation reads. Oracle after "
        "every adjustment: grow covers the request and would not without the last child; shrink "
        "releases only while the rest still covers the request and keeps no child that could "
        "still be released; released children have demand 0 and never return; zero-demand "
        "children are released; children come only from the factory; supply / utilisation / "
        "allocation aggregate as documented. Random walks of length 30 beyond the depth bound "
        "are reported separately and never carry the verdict alone.",
        "Trusted: trio's MockClock; membership read through `children` and, fail-soft, the "
        "private sets; the preference order among equal children is not in the oracle.",
        "DESIGN.md section 4, C15",
    ),
    "C16": (
        "smallscope",
        "explicit-state exploration of operation histories over every decorator stack against "
        "the underlying pool",
        "Every stack of depth 0-3 over PoolDecorator, Logger, Standardiser and Buffer on a "
        "settable pool x all histories of depth 3 (quick) / 4 (thorough) of reads, demand "
        "writes and changes of the pool; Logger name / level / message-template product over "
        "all fields including deprecated and unknown ones. Oracle: supply, utilisation and "
        "allocation through the stack equal the pool's after every operation; demand passes "
        "unchanged through plain decorators and Loggers; one record per write, emitted before "
        "the write (handler snapshots the pool), right logger, level and field values; unknown "
        "fields rejected at construction.",
        "Trusted: the twin-copy construction used to know the target's state before a write; "
        "no Buffer service is running; the value of the deprecated `consumption` field is not "
        "checked.",
        "DESIGN.md section 4, C16",
    ),
    "C18": (
        "smallscope",
        "bounded-exhaustive enumeration of forbidden tags x targets x positions x shapes "
        "through the real loader with side-effect canaries",
        "Every python/* tag kind known to the installed PyYAML (12 exact tags, 5 prefixes, "
        "read from its constructor tables) and unregistered local tags x targets (builtins, "
        "os / subprocess functions, cobald classes, a not-yet-imported canary module, a canary "
        "callable) x 11 positions (top level, section value, pipeline element, element "
        "argument, inside lazily / eagerly evaluated registered tags) x argument shapes, "
        "thorough also two nested tags, loaded through the real load(path). Oracle: loading "
        "raises, and no canary fired (module not imported, callable not called, no marker "
        "file, audit hook saw no os.system / Popen / exec / import of the canary); control "
        "documents with registered tags at the same positions load.",
        "Trusted: the audit hook and canaries observe every instantiation route of interest; "
        "the legacy `__type__: dotted.name` mechanism instantiates arbitrary callables by "
        "design and is outside the rejection clause.",
        "DESIGN.md section 4, C18",
    ),
    "C19": (
        "smallscope",
        "bounded-exhaustive enumeration of configuration trees against an independent "
        "recursive evaluator",
        "All trees with <= 5 (quick) / 6 (thorough) nodes built from mappings, lists and "
        "scalars with __type__ marks on any subset of the mappings, factories drawn from a "
        "recording class, function, nested attribute, module name, raising function, "
        "unresolvable names and a non-string, with and without __args__, generated in shortlex "
        "order and translated by the real Translator. Oracle: result equals an independent "
        "recursive evaluation, plain data unchanged, every marked mapping's factory called "
        "exactly once with exact arguments, children before parents and later list items "
        "before earlier ones; the first failing element is reported with where equal to the "
        "independently built path of keys and indices, and nothing above it was constructed.",
        "Trusted: the reference evaluator; mapping keys are simple identifiers; no order is "
        "demanded between the items of one mapping; six-node trees use a reduced factory "
        "alphabet.",
        "DESIGN.md section 4, C19",
    ),
    "C17": (
        "smallscope",
        "bounded-exhaustive input enumeration against an independent line-protocol parser",
        "Every string up to length 3 (quick) / 4 (thorough) over an 8-character alphabet "
        "containing every line-protocol special character, at every position and pair of "
        "positions of a record, times tag configurations, value types, resolutions and times, "
        "is formatted by the real formatter and decoded by an independent reference parser; "
        "JSON likewise with json.loads. Exhaustive within the bound, on the implementation.",
        "Trusted: the reference parser (reviewable, ~100 lines, rules in DESIGN.md C17); inputs "
        "the protocol cannot express are skipped and counted; longer strings / other characters "
        "are not covered.",
        "DESIGN.md section 4, C17",
    ),
}

NOT_YET = "check not built yet in this revision (see DESIGN.md section 7 build order)"


def main():
    props = [json.loads(line)["id"] for line in open(os.path.join(VERIF, "properties.jsonl"))]
    checks = []
    for prop in props:
        if prop not in CHECKS:
            continue
        engine, technique, text, note, ref = CHECKS[prop]
        checks.append({
            "property_id": prop,
            "quick_cmd": "./check %s --tier quick" % prop,
            "thorough_cmd": "./check %s --tier thorough" % prop,
            "evidence_file": "/verif/evidence/%s.json" % prop,
            "replay_cmd_template": "./check %s --replay {path}" % prop,
            "engine": engine,
            "level_claimed": {"category": "model_checking", "text": text, "design_ref": ref},
            "level_note": note,
            "technique": technique,
        })
    manifest = {
        "version": 1,
        "setup_cmd": "./setup.sh",
        "hooks": {
            "guard": "COBALD_VERIF",
            "enable": "no source hooks are needed: every seam is installed from outside at run "
                      "time by the harness; ./check exports COBALD_VERIF=1 for uniformity",
            "baseline_off_cmd": "cd /repo && /venv/bin/python -m pytest -ra -q -p no:cacheprovider "
                                "--timeout=900 --continue-on-collection-errors",
            "source_commits": [],
            "add_only": True,
        },
        "engines": [
            {"name": name, "path": "/verif/vlib", "kind_free_text": text,
             "serves_properties": [p for p in props if p in CHECKS and CHECKS[p][0] == name]}
            for name, text in ENGINES.items()
        ],
        "checks": checks,
        "notes": "All checks explore the implementation in /repo's working tree directly "
                 "(PYTHONPATH=/repo/src first). Genuine defects repaired by fix: commits and "
                 "recorded findings are listed in /verif/known_findings.json.",
        "not_applicable": [
            {"property_id": p, "reason": NOT_YET} for p in props if p not in CHECKS
        ],
    }
    with open(os.path.join(VERIF, "MANIFEST.json"), "w") as stream:
        json.dump(manifest, stream, indent=1)
        stream.write("\n")


if __name__ == "__main__":
    main()
