#!/bin/sh
# run every registered check of one tier (or the given ones) and summarise (exit status,
# wall time, last line):  tools_runall.sh <tier> [C01 C02 ...]
tier=${1:-quick}
cd "$(dirname "$0")"
shift
ids="$*"
[ -n "$ids" ] || ids=$(/venv/bin/python -c "import json; print(' '.join(c['property_id'] for c in json.load(open('MANIFEST.json'))['checks']))")
for id in $ids; do
  start=$(date +%s)
  out=$(./check $id --tier $tier 2>&1); code=$?
  end=$(date +%s)
  echo "$id exit=$code $((end-start))s $(echo "$out" | grep -E "^C[0-9]+ tier=" | cut -c1-160)"
  echo "$out" | grep -E "VIOLATION|KNOWN-FINDING|INFRASTRUCTURE" | cut -c1-200
done
